package ext4

import (
	"fmt"
	"os"
	"time"

	"github.com/diskfs/go-diskfs/internal/vp"
)

// c19Meta: the metadata of one inode that C19 talks about, every field arbitrary.
type c19Meta struct {
	perm                   [12]bool // r,w,x,special for owner / group / other
	uid, gid               uint32
	size                   uint64
	links                  uint16
	sec                    [4]int64 // access, change, modify, create
	nsec                   [4]int64
	number, gen            uint32
	blocks, acl            uint64
	deletion               uint32
	immutable, appendOnly  bool
	noDump, noAtime, synch bool
	hugeFile, topDir       bool
	ptr                    [15]uint32
}

// the ext4 timestamp range: 34-bit seconds, biased by -2^31 (1901-12-13 .. 2446-05-10), 30-bit nanoseconds
const (
	c19MinSec = -(int64(1) << 31)
	c19MaxSec = int64(1)<<34 - int64(1)<<31 - 1
)

func c19MetaIn(pfx string) c19Meta {
	var m c19Meta
	names := [12]string{"ur", "uw", "ux", "suid", "gr", "gw", "gx", "sgid", "or", "ow", "ox", "sticky"}
	for i := range m.perm {
		m.perm[i] = vp.Bool(pfx + "." + names[i])
	}
	m.uid, m.gid = vp.U32(pfx+".uid"), vp.U32(pfx+".gid")
	m.size = vp.U64(pfx + ".size")
	m.links = vp.U16(pfx + ".links")
	tn := [4]string{"atime", "ctime", "mtime", "crtime"}
	for i := 0; i < 4; i++ {
		m.sec[i] = vp.I64(pfx + "." + tn[i] + ".sec")
		m.nsec[i] = int64(vp.U32(pfx + "." + tn[i] + ".nsec"))
		vp.Assume(m.sec[i] >= c19MinSec)
		vp.Assume(m.sec[i] <= c19MaxSec)
		vp.Assume(m.nsec[i] <= 999999999)
	}
	m.number, m.gen = vp.U32(pfx+".ino"), vp.U32(pfx+".gen")
	m.blocks = vp.U64(pfx+".blocks") & (1<<48 - 1)
	m.acl = vp.U64(pfx+".acl") & (1<<48 - 1)
	m.deletion = vp.U32(pfx + ".dtime")
	m.immutable, m.appendOnly = vp.Bool(pfx+".immutable"), vp.Bool(pfx+".append")
	m.noDump, m.noAtime, m.synch = vp.Bool(pfx+".nodump"), vp.Bool(pfx+".noatime"), vp.Bool(pfx+".sync")
	m.hugeFile, m.topDir = vp.Bool(pfx+".hugefile"), vp.Bool(pfx+".topdir")
	return m
}

func c19Inode(m c19Meta, ft fileType) *inode {
	return &inode{
		number:           m.number,
		permissionsOwner: filePermissions{read: m.perm[0], write: m.perm[1], execute: m.perm[2], special: m.perm[3]},
		permissionsGroup: filePermissions{read: m.perm[4], write: m.perm[5], execute: m.perm[6], special: m.perm[7]},
		permissionsOther: filePermissions{read: m.perm[8], write: m.perm[9], execute: m.perm[10], special: m.perm[11]},
		fileType:         ft,
		owner:            m.uid, group: m.gid, size: m.size, hardLinks: m.links,
		accessTime: time.Unix(m.sec[0], m.nsec[0]), changeTime: time.Unix(m.sec[1], m.nsec[1]),
		modifyTime: time.Unix(m.sec[2], m.nsec[2]), createTime: time.Unix(m.sec[3], m.nsec[3]),
		deletionTime: m.deletion, blocks: m.blocks, nfsFileVersion: m.gen, extendedAttributeBlock: m.acl,
		inodeSize: minInodeSize + 32,
		flags: &inodeFlags{immutable: m.immutable, appendOnly: m.appendOnly, noDump: m.noDump, noAccessTimeUpdate: m.noAtime,
			synchronous: m.synch, hugeFile: m.hugeFile, topDirectory: m.topDir},
		blockPointers: m.ptr,
	}
}

func c19SB() *superblock {
	sb := &superblock{inodeSize: 256, blockSize: 4096, checksumSeed: vp.U32("csumSeed")}
	sb.features.hugeFile = true
	sb.features.metadataChecksums = true
	return sb
}

// c19UnixMode: st_mode permission and special bits of m as POSIX defines them.
func c19UnixMode(m c19Meta) uint16 {
	w := [12]uint16{0o400, 0o200, 0o100, 0o4000, 0o040, 0o020, 0o010, 0o2000, 0o004, 0o002, 0o001, 0o1000}
	var v uint16
	for i := range w {
		if m.perm[i] {
			v |= w[i]
		}
	}
	return v
}

func c19le16(b []byte, o int) uint16 { return uint16(b[o]) | uint16(b[o+1])<<8 }
func c19le32(b []byte, o int) uint32 {
	return uint32(c19le16(b, o)) | uint32(c19le16(b, o+2))<<16
}

// c19CheckRaw: the on-disk fields of the inode image b straight from the ext4 layout documentation.
func c19CheckRaw(b []byte, m c19Meta, ft fileType) {
	vp.Assert(c19le16(b, 0) == c19UnixMode(m)|uint16(ft), "i_mode = type | special bits | rwx bits")
	vp.Assert(c19le16(b, 2) == uint16(m.uid), "i_uid = low 16 bits of uid")
	vp.Assert(c19le16(b, 0x78) == uint16(m.uid>>16), "i_uid_high = high 16 bits of uid")
	vp.Assert(c19le16(b, 0x18) == uint16(m.gid), "i_gid = low 16 bits of gid")
	vp.Assert(c19le16(b, 0x7a) == uint16(m.gid>>16), "i_gid_high = high 16 bits of gid")
	vp.Assert(c19le32(b, 4) == uint32(m.size), "i_size_lo")
	vp.Assert(c19le32(b, 0x6c) == uint32(m.size>>32), "i_size_high")
	vp.Assert(c19le16(b, 0x1a) == m.links, "i_links_count")
	// timestamps: low 32 bits of the seconds; extra = nsec<<2 | bits 33..32 of (sec + 2^31) ... i.e. (sec - int32(sec))>>32
	off := [4]int{0x8, 0xc, 0x10, 0x90}
	ext := [4]int{0x8c, 0x84, 0x88, 0x94}
	for i := 0; i < 4; i++ {
		lo := c19le32(b, off[i])
		ex := c19le32(b, ext[i])
		vp.Assert(lo == uint32(m.sec[i]), "timestamp: low 32 bits of the seconds")
		vp.Assert(int64(ex>>2) == m.nsec[i], "timestamp extra: nanoseconds in the upper 30 bits")
		vp.Assert(int64(int32(lo))+int64(ex&3)<<32 == m.sec[i], "timestamp: sign-extended seconds + epoch bits<<32 = seconds")
	}
}

// c19CheckDecoded: inode `in` (decoded) reports metadata m.
func c19CheckDecoded(in *inode, m c19Meta, ft fileType) {
	vp.Assert(in.fileType == ft, "file type survives")
	vp.Assert(in.owner == m.uid, "uid survives")
	vp.Assert(in.group == m.gid, "gid survives")
	vp.Assert(in.size == m.size, "size survives")
	vp.Assert(in.hardLinks == m.links, "link count survives")
	got := [12]bool{in.permissionsOwner.read, in.permissionsOwner.write, in.permissionsOwner.execute, in.permissionsOwner.special,
		in.permissionsGroup.read, in.permissionsGroup.write, in.permissionsGroup.execute, in.permissionsGroup.special,
		in.permissionsOther.read, in.permissionsOther.write, in.permissionsOther.execute, in.permissionsOther.special}
	for i := range got {
		vp.Assert(got[i] == m.perm[i], "permission / special bit survives")
	}
	ts := [4]time.Time{in.accessTime, in.changeTime, in.modifyTime, in.createTime}
	for i := 0; i < 4; i++ {
		vp.Assert(ts[i].Unix() == m.sec[i], "timestamp seconds survive")
		vp.Assert(int64(ts[i].Nanosecond()) == m.nsec[i], "timestamp nanoseconds survive")
	}
	vp.Assert(in.flags.immutable == m.immutable, "immutable flag survives")
	vp.Assert(in.flags.appendOnly == m.appendOnly, "append-only flag survives")
	vp.Assert(in.flags.noDump == m.noDump, "nodump flag survives")
	vp.Assert(in.flags.noAccessTimeUpdate == m.noAtime, "noatime flag survives")
	vp.Assert(in.flags.synchronous == m.synch, "sync flag survives")
	vp.Assert(in.flags.hugeFile == m.hugeFile, "huge-file flag survives")
	vp.Assert(in.flags.topDirectory == m.topDir, "topdir flag survives")
	vp.Assert(in.blocks == m.blocks, "block count survives")
	vp.Assert(in.extendedAttributeBlock == m.acl, "xattr block survives")
	vp.Assert(in.nfsFileVersion == m.gen, "generation survives")
	// what Stat reports
	mode := in.permissionsToMode()
	vp.Assert(uint16(mode.Perm()) == c19UnixMode(m)&0o777, "Stat: rwx bits")
	vp.Assert((mode&os.ModeSetuid != 0) == m.perm[3], "Stat: setuid")
	vp.Assert((mode&os.ModeSetgid != 0) == m.perm[7], "Stat: setgid")
	vp.Assert((mode&os.ModeSticky != 0) == m.perm[11], "Stat: sticky")
	vp.Assert(mode.IsDir() == (ft == fileTypeDirectory), "Stat: directory iff the inode is a directory")
	vp.Assert((mode&os.ModeSymlink != 0) == (ft == fileTypeSymbolicLink), "Stat: symlink iff the inode is a symlink")
	vp.Assert(mode.IsRegular() == (ft == fileTypeRegularFile), "Stat: regular iff the inode is a regular file")
	st := in.stat()
	vp.Assert(st.UID == m.uid, "StatT.UID")
	vp.Assert(st.GID == m.gid, "StatT.GID")
	vp.Assert(st.Nlink == m.links, "StatT.Nlink")
	vp.Assert(st.AccessTime.Unix() == m.sec[0], "StatT.AccessTime")
	vp.Assert(st.ChangeTime.Unix() == m.sec[1], "StatT.ChangeTime")
	vp.Assert(st.CreateTime.Unix() == m.sec[3], "StatT.CreateTime")
	vp.Assert(st.Flags.Immutable == m.immutable, "StatT.Flags.Immutable")
	vp.Assert(st.Flags.AppendOnly == m.appendOnly, "StatT.Flags.AppendOnly")
}

// c19Encode: inode with arbitrary metadata -> toBytes -> the documented on-disk fields.
func c19Encode(ft fileType) {
	m := c19MetaIn("i")
	if ft != fileTypeRegularFile {
		c19OneTime(&m, 2) // all four timestamps together: the regular-file variant
	}
	sb := c19SB()
	in := c19Inode(m, ft)
	if ft == fileTypeSymbolicLink {
		vp.Assume(m.size >= 60)
	}
	b := in.toBytes(sb)
	vp.Assert(len(b) == 256, "inode image has the superblock's inode size")
	c19CheckRaw(b, m, ft)
	if m.sec[2] < 0 {
		vp.Cover("mtime before 1970")
	}
	if m.sec[2] >= 1<<33 {
		vp.Cover("mtime after 2242 (epoch bits = 3)")
	}
	vp.Cover("encoded")
}

func VP_C19_ext4_inode_encode_file()    { c19Encode(fileTypeRegularFile) }
func VP_C19_ext4_inode_encode_dir()     { c19Encode(fileTypeDirectory) }
func VP_C19_ext4_inode_encode_symlink() { c19Encode(fileTypeSymbolicLink) }

// c19OneTime keeps timestamp `which` of m arbitrary and fixes the other three to distinct concrete values
// (inodeFromBytes normalises nanoseconds >= 1e9 through a 64-bit division per timestamp; four symbolic
// ones at once are too hard for the solver, the encoder harness covers all four together).
func c19OneTime(m *c19Meta, which int) {
	for i := 0; i < 4; i++ {
		if i != which {
			m.sec[i] = int64(i+1)*1000000007 - 1<<31
			m.nsec[i] = int64(i+1) * 249999999
		}
	}
}

// c19Roundtrip: inode with arbitrary metadata -> toBytes -> inodeFromBytes -> same metadata.
func c19Roundtrip(ft fileType) {
	for which := 0; which < 4; which++ {
		if ft != fileTypeRegularFile && which != 2 && !vp.Thorough() {
			continue // quick tier: each of the four timestamps in turn for the regular-file variant; others: mtime
		}
		m := c19MetaIn("i")
		c19OneTime(&m, which)
		if ft == fileTypeRegularFile && which == 0 {
			for k := range m.ptr {
				m.ptr[k] = vp.U32(fmt.Sprintf("i.ptr%d", k))
			}
		}
		if ft == fileTypeSymbolicLink {
			vp.Assume(m.size >= 60) // a slow symlink (inline targets: VP_C19_ext4_symlink_inline)
		}
		sb := c19SB()
		in := c19Inode(m, ft)
		b := in.toBytes(sb)
		out, err := inodeFromBytes(b, sb, m.number)
		vp.Assert(err == nil, "the encoded inode decodes (checksum valid)")
		if err != nil {
			return
		}
		c19CheckDecoded(out, m, ft)
		for k := range m.ptr {
			vp.Assert(out.blockPointers[k] == m.ptr[k], "block map survives")
		}
		vp.Assert(out.linkTarget == "", "no inline link target")
		if which == 2 {
			if m.sec[2] < 0 {
				vp.Cover("mtime before 1970")
			}
			if m.sec[2] >= 1<<31 {
				vp.Cover("mtime after 2038")
			}
			if m.sec[2] >= 1<<33 {
				vp.Cover("mtime after 2242 (epoch bits = 3)")
			}
		}
		if m.uid > 0xffff {
			vp.Cover("32-bit uid")
		}
	}
	vp.Cover("round trip")
}

func VP_C19_ext4_inode_roundtrip_file()    { c19Roundtrip(fileTypeRegularFile) }
func VP_C19_ext4_inode_roundtrip_dir()     { c19Roundtrip(fileTypeDirectory) }
func VP_C19_ext4_inode_roundtrip_symlink() { c19Roundtrip(fileTypeSymbolicLink) }

// VP_C19_ext4_symlink_inline: a symlink whose target (arbitrary bytes, length 1..59) is stored in
// i_block; length 60 is the first one that is not (extent mapped instead).
func VP_C19_ext4_symlink_inline() {
	m := c19MetaIn("i")
	n := int(vp.U8("len"))
	vp.Assume(n >= 1)
	vp.Assume(n <= 59)
	tb := vp.Bytes("target", 59)
	m.size = uint64(n)
	c19OneTime(&m, 2)
	sb := c19SB()
	in := c19Inode(m, fileTypeSymbolicLink)
	in.linkTarget = string(tb[:n])
	b := in.toBytes(sb)
	for k := 0; k < 59; k++ {
		if k < n {
			vp.Assert(b[0x28+k] == tb[k], "target bytes stored in i_block")
		}
	}
	out, err := inodeFromBytes(b, sb, m.number)
	vp.Assert(err == nil, "the encoded inode decodes")
	if err != nil {
		return
	}
	c19CheckDecoded(out, m, fileTypeSymbolicLink)
	vp.Assert(len(out.linkTarget) == n, "inline target length survives")
	for k := 0; k < 59; k++ {
		if k < n {
			vp.Assert(out.linkTarget[k] == tb[k], "inline target bytes survive")
		}
	}
	vp.Assert(out.stat().LinkTarget == out.linkTarget, "StatT.LinkTarget")
	if n == 59 {
		vp.Cover("longest inline target (59)")
	}
	if n == 1 {
		vp.Cover("shortest target (1)")
	}
	vp.Cover("inline symlink")
}

// VP_C19_ext4_flags: every flag word whose bits are all defined survives parseInodeFlags/toInt; bit by bit.
func VP_C19_ext4_flags() {
	const defined uint32 = 0x1 | 0x2 | 0x4 | 0x8 | 0x10 | 0x20 | 0x40 | 0x80 | 0x100 | 0x200 | 0x400 | 0x800 | 0x1000 | 0x2000 |
		0x4000 | 0x8000 | 0x10000 | 0x20000 | 0x40000 | 0x80000 | 0x200000 | 0x400000 | 0x1000000 | 0x4000000 | 0x8000000 | 0x10000000 | 0x20000000
	w := vp.U32("flags")
	f := parseInodeFlags(w)
	vp.Assert(f.toInt() == w&defined, "defined flag bits survive decode/encode")
	vp.Assert(f.immutable == (w&0x10 != 0), "EXT4_IMMUTABLE_FL = 0x10")
	vp.Assert(f.appendOnly == (w&0x20 != 0), "EXT4_APPEND_FL = 0x20")
	vp.Assert(f.noDump == (w&0x40 != 0), "EXT4_NODUMP_FL = 0x40")
	vp.Assert(f.noAccessTimeUpdate == (w&0x80 != 0), "EXT4_NOATIME_FL = 0x80")
	vp.Assert(f.usesExtents == (w&0x80000 != 0), "EXT4_EXTENTS_FL = 0x80000")
	vp.Assert(f.inlineData == (w&0x10000000 != 0), "EXT4_INLINE_DATA_FL = 0x10000000")
	pub := inodeFlagsToInodeFlags(&f)
	vp.Assert(pub.Immutable == f.immutable, "public Immutable")
	vp.Assert(pub.AppendOnly == f.appendOnly, "public AppendOnly")
	vp.Assert(pub.NoDump == f.noDump, "public NoDump")
	vp.Assert(pub.NoAtime == f.noAccessTimeUpdate, "public NoAtime")
	vp.Cover("flags")
}

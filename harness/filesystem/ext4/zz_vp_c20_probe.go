package ext4

import (
	"github.com/diskfs/go-diskfs/filesystem/ext4/crc"
	"github.com/diskfs/go-diskfs/internal/vp"
)

func VP_C20_probe_crc() {
	b := vp.Bytes("d", 256)
	c := crc.CRC32c(vp.U32("seed"), b)
	d := crc.CRC32c(vp.U32("seed"), b)
	vp.Assert(c == d, "same")
	vp.Cover("x")
}

package ext4

import (
	"encoding/binary"

	"github.com/diskfs/go-diskfs/filesystem/ext4/crc"
	"github.com/diskfs/go-diskfs/internal/vp"
	"github.com/diskfs/go-diskfs/internal/vp/vpdev"
)

// c20SealSuper stores the superblock checksum: crc32c(~0, bytes 0..0x3fb) at 0x3fc.
func c20SealSuper(b []byte) {
	binary.LittleEndian.PutUint32(b[0x3fc:], crc.CRC32c(0xffffffff, b[0:0x3fc]))
}

// c20SuperCommon fixes what every mke2fs superblock has (magic, checksum type crc32c) and the
// assumptions about the checksum seed field (zero unless the csum_seed feature is set).
func c20SuperCommon(b []byte) {
	b[0x38], b[0x39] = 0x53, 0xef
	b[0x175] = 1
	// text fields (label, last mount point, error function names, mount options) are not part of the
	// property; empty strings keep the NUL-trimming loops of the decoder concrete
	for _, r := range [][2]int{{0x78, 0xc8}, {0x1a8, 0x1c8}, {0x1e0, 0x200}, {0x200, 0x240}} {
		for i := r[0]; i < r[1]; i++ {
			b[i] = 0
		}
	}
	incompat := c20le32(b, 0x60)
	if incompat&0x2000 != 0 {
		vp.Assume(c20le32(b, 0x270) != 0)
	} else {
		vp.Assume(c20le32(b, 0x270) == 0)
	}
}

// VP_C20_superblock: all 1024 bytes arbitrary (magic, checksum type and a valid checksum as mke2fs
// writes them; s_log_block_size <= 6): the geometry and feature fields the readers depend on are the
// documented on-disk fields, including the high halves that only count with the 64bit feature.
func VP_C20_superblock() {
	b := vp.Bytes("sb", 1024)
	c20SuperCommon(b)
	logbs := c20le32(b, 0x18)
	vp.Assume(logbs <= 6)
	vp.Assume(c20le32(b, 0x1c) <= 20)
	vp.Assume(b[0x174] <= 31)
	c20SealSuper(b)
	ref := make([]byte, 1024)
	copy(ref, b)
	vp.NoPanic()
	sb, err := superblockFromBytes(b)
	vp.AllowPanic()
	vp.Assert(err == nil, "a superblock with magic, checksum type 1 and valid checksum is accepted")
	if err != nil {
		return
	}
	compat, incompat, ro := c20le32(ref, 0x5c), c20le32(ref, 0x60), c20le32(ref, 0x64)
	_ = compat
	is64 := incompat&0x80 != 0
	vp.Assert(sb.inodeCount == c20le32(ref, 0), "s_inodes_count")
	bc := uint64(c20le32(ref, 4))
	if is64 {
		bc |= uint64(c20le32(ref, 0x150)) << 32
	}
	vp.Assert(sb.blockCount == bc, "s_blocks_count (high half only with 64bit)")
	vp.Assert(sb.firstDataBlock == c20le32(ref, 0x14), "s_first_data_block")
	vp.Assert(sb.blockSize == uint32(1024)<<logbs, "block size = 1024 << s_log_block_size")
	vp.Assert(sb.blocksPerGroup == c20le32(ref, 0x20), "s_blocks_per_group")
	vp.Assert(sb.inodesPerGroup == c20le32(ref, 0x28), "s_inodes_per_group")
	vp.Assert(sb.inodeSize == c20le16(ref, 0x58), "s_inode_size")
	ds := uint16(32)
	if is64 {
		ds = c20le16(ref, 0xfe)
	}
	vp.Assert(sb.groupDescriptorSize == ds, "descriptor size = 32, or s_desc_size with 64bit")
	vp.Assert(sb.features.fs64Bit == is64, "feature 64bit")
	vp.Assert(sb.features.extents == (incompat&0x40 != 0), "feature extents")
	vp.Assert(sb.features.flexBlockGroups == (incompat&0x200 != 0), "feature flex_bg")
	vp.Assert(sb.features.largeDirectory == (incompat&0x4000 != 0), "feature largedir")
	vp.Assert(sb.features.dataInInode == (incompat&0x8000 != 0), "feature inline_data")
	vp.Assert(sb.features.directoryEntriesRecordFileType == (incompat&0x2 != 0), "feature filetype")
	vp.Assert(sb.features.metadataChecksums == (ro&0x400 != 0), "feature metadata_csum")
	vp.Assert(sb.features.hugeFile == (ro&0x8 != 0), "feature huge_file")
	vp.Assert(sb.features.directoryIndices == (compat&0x20 != 0), "feature dir_index")
	if ro&0x400 != 0 {
		if incompat&0x2000 != 0 {
			vp.Assert(sb.checksumSeed == c20le32(ref, 0x270), "checksum seed = s_checksum_seed with csum_seed")
		} else {
			vp.Assert(sb.checksumSeed == crc.CRC32c(0xffffffff, ref[0x68:0x78]), "checksum seed = crc32c(~0, uuid)")
		}
		vp.Cover("metadata_csum superblock")
	}
	if is64 {
		vp.Cover("64bit superblock")
	} else {
		vp.Cover("32bit superblock")
	}
}

// VP_C20_superblock_refused: anything without the ext magic is refused.
func VP_C20_superblock_refused() {
	b := vp.Bytes("sb", 1024)
	vp.Assume(c20le16(b, 0x38) != 0xef53)
	_, err := superblockFromBytes(b)
	vp.Assert(err != nil, "no ext magic: refused")
	vp.Cover("bad magic refused")
}

// c20SealGD stores the metadata_csum descriptor checksum: low 16 bits of
// crc32c(crc32c(seed, le32(group)), descriptor with bg_checksum = 0) at 0x1e.
func c20SealGD(d []byte, seed uint32, group uint32) {
	d[0x1e], d[0x1f] = 0, 0
	var g [4]byte
	binary.LittleEndian.PutUint32(g[:], group)
	c := crc.CRC32c(crc.CRC32c(seed, g[:]), d)
	d[0x1e], d[0x1f] = byte(c), byte(c>>8)
}

// c20CheckGD: block/inode bitmap and inode table locations: low 32 bits at 0/4/8, high 32 bits at
// 0x20/0x24/0x28 of a 64-byte descriptor.
func c20CheckGD(gd *groupDescriptor, d []byte, size int, number int) {
	hi := func(o int) uint64 {
		if size == 64 {
			return uint64(c20le32(d, o)) << 32
		}
		return 0
	}
	vp.Assert(gd.inodeTableLocation == uint64(c20le32(d, 8))|hi(0x28), "bg_inode_table lo|hi<<32")
	vp.Assert(gd.blockBitmapLocation == uint64(c20le32(d, 0))|hi(0x20), "bg_block_bitmap lo|hi<<32")
	vp.Assert(gd.inodeBitmapLocation == uint64(c20le32(d, 4))|hi(0x24), "bg_inode_bitmap lo|hi<<32")
	vp.Assert(int(gd.number) == number, "group number")
}

func c20GDT(size int) {
	n := 3
	b := vp.Bytes("gdt", n*size)
	seed := vp.U32("csumSeed")
	for g := 0; g < n; g++ {
		c20SealGD(b[g*size:(g+1)*size], seed, uint32(g))
	}
	ref := make([]byte, len(b))
	copy(ref, b)
	vp.NoPanic()
	gds, err := groupDescriptorsFromBytes(b, uint16(size), seed, gdtChecksumMetadata)
	vp.AllowPanic()
	vp.Assert(err == nil, "descriptors with valid checksums are accepted")
	if err != nil {
		return
	}
	vp.Assert(len(gds.descriptors) == n, "one descriptor per group")
	for g := 0; g < n && g < len(gds.descriptors); g++ {
		c20CheckGD(&gds.descriptors[g], ref[g*size:(g+1)*size], size, g)
	}
	vp.Cover("group descriptor table decoded")
}

func VP_C20_gdt_64() { c20GDT(64) }
func VP_C20_gdt_32() { c20GDT(32) }

// c20Mount: ext4.Read on a device whose superblock and descriptor table are arbitrary bytes (valid
// checksums; geometry fixed: logbs as given, 2 block groups, 64bit on/off): the descriptors are taken
// from the block after the superblock's block (byte 2048 for 1 KiB blocks, else one block in), and the
// geometry lands in the FileSystem.
func c20Mount(logbs uint32, is64 bool) {
	bs := 1024 << logbs
	gdtOff := bs
	if bs == 1024 {
		gdtOff = 2048
	}
	ds := 32
	if is64 {
		ds = 64
	}
	img := vp.Bytes("image", gdtOff+2*ds)
	b := img[1024:2048]
	binary.LittleEndian.PutUint32(b[0x18:], logbs)
	binary.LittleEndian.PutUint32(b[0x1c:], logbs)
	b[0x174] = 4
	// two groups: 40000 blocks, 32768 per group
	binary.LittleEndian.PutUint32(b[4:], 40000)
	binary.LittleEndian.PutUint32(b[0x150:], 0)
	binary.LittleEndian.PutUint32(b[0x20:], 32768)
	// features: extents, filetype, flex_bg (+64bit); metadata_csum, huge_file, large_file
	incompat := uint32(0x2 | 0x40 | 0x200)
	if is64 {
		incompat |= 0x80
	}
	binary.LittleEndian.PutUint32(b[0x60:], incompat)
	binary.LittleEndian.PutUint32(b[0x64:], 0x400|0x8|0x2|0x1)
	binary.LittleEndian.PutUint16(b[0xfe:], uint16(ds))
	binary.LittleEndian.PutUint32(b[0x270:], 0)
	c20SuperCommon(b)
	vp.Assume(c20le32(b, 0x28) != 0) // s_inodes_per_group of a valid image is not zero (refused since f77281d)
	c20SealSuper(b)
	seed := crc.CRC32c(0xffffffff, b[0x68:0x78])
	for g := 0; g < 2; g++ {
		c20SealGD(img[gdtOff+g*ds:gdtOff+(g+1)*ds], seed, uint32(g))
	}
	dev := vpdev.NewMemDev("disk", 1<<30)
	dev.Image = img
	dev.NoWrites = true
	vp.AllocCap(2*ds + 2)
	vp.NoPanic()
	fs, err := Read(dev, 1<<30, 0, 512)
	vp.AllowPanic()
	vp.Assert(err == nil, "an image with valid superblock and descriptors is opened")
	if err != nil {
		return
	}
	vp.Assert(fs.superblock.blockSize == uint32(bs), "block size")
	vp.Assert(fs.superblock.inodesPerGroup == c20le32(b, 0x28), "inodes per group")
	vp.Assert(fs.superblock.inodeSize == c20le16(b, 0x58), "inode size")
	vp.Assert(len(fs.groupDescriptors.descriptors) == 2, "two groups")
	for g := 0; g < 2 && g < len(fs.groupDescriptors.descriptors); g++ {
		c20CheckGD(&fs.groupDescriptors.descriptors[g], img[gdtOff+g*ds:gdtOff+(g+1)*ds], ds, g)
	}
	vp.Cover("image opened")
}

func VP_C20_mount_1k_64() { c20Mount(0, true) }
func VP_C20_mount_1k_32() { c20Mount(0, false) }
func VP_C20_mount_2k_64() { c20Mount(1, true) }
func VP_C20_mount_4k_64() { c20ThoroughOnly(func() { c20Mount(2, true) }) }

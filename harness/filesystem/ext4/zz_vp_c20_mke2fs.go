package ext4

import (
	"io"
	"os"

	"github.com/diskfs/go-diskfs/internal/vp"
	"github.com/diskfs/go-diskfs/internal/vp/vpdev"
)

// C20.mke2fs_*: the fixture image built by the REFERENCE tools at check time (tools_c20_fixture.py: mke2fs -d,
// e2fsck -fyD, debugfs ea_set; clean for e2fsck -fn) is opened with ext4.Read and compared with the manifest
// of what was put in. The image is concrete, so these runs decide nothing by solver: they are conformance
// runs of the real reader (executed by the engine and natively) that tie the reference decoders used by the
// symbolic C20 harnesses to what mke2fs really writes - hashed directory, sparse files, slow symlink,
// attribute values. Where e2fsprogs is not installed the fixture is a stub and the harnesses only report that.

type c20GenDev struct{ *vpdev.MemDev }

func (d *c20GenDev) ReadAt(p []byte, off int64) (int, error) {
	if off < 0 || off >= c20GenSize {
		return 0, io.EOF
	}
	n := 0
	for n < len(p) && off+int64(n) < c20GenSize {
		a := off + int64(n)
		in := int(a & 1023)
		k := 1024 - in
		if k > len(p)-n {
			k = len(p) - n
		}
		if blk, ok := c20GenBlocks[a>>10]; ok {
			copy(p[n:n+k], blk[in:in+k])
		} else {
			for i := 0; i < k; i++ {
				p[n+i] = 0
			}
		}
		n += k
	}
	if n < len(p) {
		return n, io.EOF
	}
	return n, nil
}

func c20GenPat(fid int, i int64) byte { return byte((i*31 + int64(fid)*17 + (i >> 8)) & 0xff) }

func c20GenWant(f c20GenFile, i int64) byte {
	for _, h := range f.holes {
		if i >= h[0] && i < h[1] {
			return 0
		}
	}
	return c20GenPat(f.fid, i)
}

func c20GenOpen() *FileSystem {
	if !c20GenOK {
		vp.Cover("e2fsprogs not installed: no reference fixture")
		return nil
	}
	m := vpdev.NewMemDev("img", c20GenSize)
	m.NoWrites = true
	vp.Unwind(4000)
	vp.AllocCap(4096)
	fs, err := Read(&c20GenDev{m}, c20GenSize, 0, 512)
	vp.Assert(err == nil, "the image made by mke2fs opens")
	if err != nil {
		return nil
	}
	return fs
}

// VP_C20_mke2fs_tree: directory listings (root, a small directory, a hash-indexed directory of 48 long
// names), file sizes, modes, modification times and symlink targets.
func VP_C20_mke2fs_tree() {
	fs := c20GenOpen()
	if fs == nil {
		return
	}
	for _, f := range c20GenTree {
		switch f.kind {
		case 'd':
			ents, err := fs.ReadDir(f.path)
			vp.Assert(err == nil, "directory lists")
			if err != nil {
				continue
			}
			got := map[string]bool{}
			for _, e := range ents {
				vp.Assert(!got[e.Name()], "no name listed twice")
				got[e.Name()] = true
			}
			vp.Assert(len(got) == len(f.names), "as many names as were put in")
			for _, n := range f.names {
				vp.Assert(got[n], "every name that was put in is listed")
			}
		case 'f':
			fi, err := fs.Stat(f.path)
			vp.Assert(err == nil, "file stats")
			if err != nil {
				continue
			}
			vp.Assert(fi.Size() == f.size, "size as put in")
			vp.Assert(uint32(fi.Mode().Perm()) == f.mode&0o777, "permission bits as put in")
			vp.Assert((fi.Mode()&os.ModeSetuid != 0) == (f.mode&0o4000 != 0), "setuid bit as put in")
			vp.Assert(fi.ModTime().Unix() == f.mtime, "modification time as put in")
		case 'l':
			t, err := fs.ReadLink(f.path)
			vp.Assert(err == nil, "symlink reads")
			vp.Assert(t == f.target, "symlink target as put in")
		}
	}
	vp.Cover("tree compared with the manifest")
}

// VP_C20_mke2fs_contents: every file is read completely in chunks of 1000 bytes through one handle and at
// probe offsets around block, extent and hole boundaries through fresh handles; holes read as zeros.
func VP_C20_mke2fs_contents() {
	fs := c20GenOpen()
	if fs == nil {
		return
	}
	for _, f := range c20GenTree {
		if f.kind != 'f' {
			continue
		}
		h, err := fs.OpenFile(f.path, os.O_RDONLY)
		vp.Assert(err == nil, "file opens")
		if err != nil {
			continue
		}
		buf := make([]byte, 1000)
		pos := int64(0)
		for k := 0; k < 12; k++ {
			n, err := h.Read(buf)
			for i := 0; i < n; i++ {
				vp.Assert(buf[i] == c20GenWant(f, pos+int64(i)), "content as put in (zeros in holes)")
			}
			pos += int64(n)
			if err == io.EOF {
				break
			}
			vp.Assert(err == nil, "no error other than io.EOF")
			if err != nil || n == 0 {
				break
			}
		}
		vp.Assert(pos == f.size, "the whole file is delivered")
		for _, off := range []int64{1, 999, 1000, 1023, 1024, 1025, 4095, 4096, 9215, 9216, 9217, f.size - 1} {
			if off < 0 || off >= f.size {
				continue
			}
			if _, err := h.Seek(off, io.SeekStart); err != nil {
				vp.Assert(false, "seek inside the file")
				continue
			}
			small := make([]byte, 5)
			n, _ := h.Read(small)
			vp.Assert(n > 0, "bytes delivered inside the file")
			for i := 0; i < n; i++ {
				vp.Assert(small[i] == c20GenWant(f, off+int64(i)), "content at probe offset")
			}
		}
	}
	vp.Cover("contents compared with the manifest")
}

// VP_C20_mke2fs_xattr: the attributes set with debugfs ea_set (one with a value, one empty).
func VP_C20_mke2fs_xattr() {
	fs := c20GenOpen()
	if fs == nil {
		return
	}
	attrs, err := fs.GetXattr("small.txt")
	vp.Assert(err == nil, "attributes are read")
	if err != nil {
		return
	}
	v, ok := attrs["user.color"]
	vp.Assert(ok, "the attribute with a value is reported")
	vp.Assert(string(v) == "blue", "attribute value as set")
	e, ok := attrs["user.empty"]
	vp.Assert(ok, "the attribute with an empty value is reported")
	vp.Assert(len(e) == 0, "empty value")
	vp.Cover("attributes compared")
}

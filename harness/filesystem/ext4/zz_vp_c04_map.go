package ext4

import (
	"io"

	"github.com/diskfs/go-diskfs/backend"
	"github.com/diskfs/go-diskfs/internal/vp"
	"github.com/diskfs/go-diskfs/internal/vp/vpdev"
)

// C04.read_map / C04.write_map: File.Read / File.Write map file offsets to disk offsets through
// the flat extent list. The file is constructed directly: K extents as the library's allocator
// produces them (extent i starts at file block = sum of the previous counts, count >= 1, disk
// ranges pairwise disjoint), covering at least ceil(size/blocksize) blocks.

// c04PatDev is a device whose byte at offset x is byte(x) and which records every ReadAt
// (offset, length). Together with the exact assertion on the recorded offsets the 8-bit pattern
// decides the placement of the copied bytes.
type c04PatDev struct {
	vpdev.MemDev
	rOff []int64
	rLen []int
}

func (d *c04PatDev) ReadAt(p []byte, off int64) (int, error) {
	d.rOff = append(d.rOff, off)
	d.rLen = append(d.rLen, len(p))
	vp.FillFunc(p, func(i int) byte { return byte(off + int64(i)) })
	return len(p), nil
}

// c04Ext builds K extents with symbolic counts and starting blocks.
func c04Ext(k int, maxCount uint16, maxStart uint64, disjoint bool) (extents, uint64) {
	var es extents
	var fb uint32
	names := [][2]string{{"c0", "s0"}, {"c1", "s1"}, {"c2", "s2"}, {"c3", "s3"}}
	for i := 0; i < k; i++ {
		c := vp.U16(names[i][0])
		s := vp.U64(names[i][1])
		vp.Assume(c >= 1)
		vp.Assume(c <= maxCount)
		vp.Assume(s >= 1)
		vp.Assume(s <= maxStart)
		es = append(es, extent{fileBlock: fb, startingBlock: s, count: c})
		fb += uint32(c)
	}
	// disk ranges pairwise disjoint
	for i := 0; disjoint && i < k; i++ {
		for j := i + 1; j < k; j++ {
			iBeforeJ := es[i].startingBlock+uint64(es[i].count) <= es[j].startingBlock
			jBeforeI := es[j].startingBlock+uint64(es[j].count) <= es[i].startingBlock
			vp.Assume(iBeforeJ != jBeforeI || iBeforeJ)
		}
	}
	return es, uint64(fb)
}

// c04DiskPos is the specification's mapping of file position p to a device offset.
func c04DiskPos(es extents, bs int64, p int64) int64 {
	var r int64 = -1
	for i := range es {
		lo := int64(es[i].fileBlock) * bs
		hi := lo + int64(es[i].count)*bs
		in := p >= lo
		if p >= hi {
			in = false
		}
		r = vp.IteI64(in, int64(es[i].startingBlock)*bs+(p-lo), r)
	}
	return r
}

func c04File(dev backend.Storage, bs uint32, es extents, size uint64, off int64, rw bool) *File {
	fsys := &FileSystem{superblock: &superblock{blockSize: bs}, backend: dev}
	return &File{
		inode:       &inode{number: 12, size: size, fileType: fileTypeRegularFile, flags: &inodeFlags{usesExtents: true}},
		isReadWrite: rw,
		offset:      off,
		filesystem:  fsys,
		extents:     es,
		fileType:    dirFileTypeRegular,
		filename:    "f",
	}
}

// c04ReadMap: one Read call on a K-extent file.
// content mode (bs small): every delivered byte is compared with the device byte the
// specification maps it to.
func c04ReadMap(k int, bs uint32, maxCount uint16, maxStart uint64, maxLen int) {
	es, blocks := c04Ext(k, maxCount, maxStart, false)
	size := vp.U64("size")
	vp.Assume(size <= blocks*uint64(bs)) // extents cover the file
	off := vp.I64("off")
	vp.Assume(off >= 0)
	vp.Assume(off <= int64(size)+int64(bs))
	n := vp.Int("len")
	vp.Assume(n >= 0)
	vp.Assume(n <= maxLen)
	dev := &c04PatDev{}
	dev.NoWrites = true
	fl := c04File(dev, bs, es, size, off, false)
	vp.AllocCap(maxLen)
	buf := make([]byte, n)
	vp.KnownPanic("KF-C04-2", "ext4/file.go:73")
	vp.NoPanic()
	got, err := fl.Read(buf)
	vp.AllowPanic()

	want := int64(0)
	if off < int64(size) {
		want = int64(size) - off
		if int64(n) < want {
			want = int64(n)
		}
	}
	if err != nil {
		vp.Assert(err == io.EOF, "Read fails only with io.EOF on a well-formed file")
		vp.Assert(off+int64(got) >= int64(size), "io.EOF only at the end of the file")
	}
	vp.Assert(got >= 0, "count not negative")
	vp.Assert(int64(got) <= want, "no more bytes than requested and than the file holds")
	if want > 0 {
		vp.Assert(got > 0, "progress: a non-empty read inside the file delivers bytes")
	} else if n > 0 {
		vp.Assert(err == io.EOF, "read at or after the end reports io.EOF")
	}
	vp.Assert(fl.offset == off+int64(got), "handle offset advances by the bytes delivered")
	// the device reads issued: consecutive pieces of [off, off+got), each inside one extent, each
	// at the device offset the extent list maps its file position to
	pos := off
	for c := range dev.rOff {
		l := int64(dev.rLen[c])
		if l > 0 {
			vp.Assert(dev.rOff[c] == c04DiskPos(es, int64(bs), pos), "device read starts where the extent list maps the file position")
			vp.Assert(dev.rOff[c]+l-1 == c04DiskPos(es, int64(bs), pos+l-1), "device read stays inside one extent")
		}
		pos += l
	}
	vp.Assert(pos == off+int64(got), "bytes delivered = bytes read from the device")
	for j := 0; j < maxLen; j++ {
		if j < got {
			vp.Assert(buf[j] == byte(c04DiskPos(es, int64(bs), off+int64(j))), "delivered byte = device byte the extent list maps the position to")
		}
	}
	if int64(got) == want {
		if want > 0 {
			vp.Cover("full read")
		}
	}
	if got > int(bs) {
		vp.Cover("read longer than a block")
	}
	if off >= int64(size) {
		vp.Cover("read at end")
	}
}

func VP_C04_read_map_k1() { c04ReadMap(1, 4, 3, 1<<40, 16) }
func VP_C04_read_map_k2() { c04ReadMap(2, 4, 3, 1<<40, 20) }
func VP_C04_read_map_k3() { c04ReadMap(3, 4, 2, 1<<40, vp.Bound("readlen3", 16, 28)) }

// real block sizes, arbitrary extent sizes / positions, short reads (arithmetic at scale)
func VP_C04_read_map_1k() { c04ReadMap(2, 1024, 32768, 1<<32, 8) }
func VP_C04_read_map_4k() { c04ReadMap(3, 4096, 32768, 1<<32, 6) }

package ext4

import (
	"io"

	"github.com/diskfs/go-diskfs/backend"
	"github.com/diskfs/go-diskfs/internal/vp"
	"github.com/diskfs/go-diskfs/internal/vp/vpdev"
)

// C04.read_map / C04.write_map: File.Read / File.Write map file offsets to disk offsets through
// the flat extent list. The file is constructed directly: K extents as the library's allocator
// produces them (extent i starts at file block = sum of the previous counts, count >= 1, disk
// ranges pairwise disjoint), covering at least ceil(size/blocksize) blocks.

// c04PatDev records every ReadAt (offset, length) and answers call k with the bytes k*64+0,
// k*64+1, ...: the harness asserts (a) that every call reads exactly the device range the extent
// list maps the next file positions to and (b) that the caller's buffer is the concatenation of
// the answers (lengths of a Read stay below 64, at most 4 calls).
type c04PatDev struct {
	vpdev.MemDev
	rOff []int64
	rLen []int
}

func (d *c04PatDev) ReadAt(p []byte, off int64) (int, error) {
	d.rOff = append(d.rOff, off)
	d.rLen = append(d.rLen, len(p))
	k := len(d.rOff) - 1
	vp.FillFunc(p, func(i int) byte { return byte(k<<6 + i) })
	return len(p), nil
}

// c04Ext builds K extents with symbolic counts and starting blocks.
func c04Ext(k int, maxCount uint16, maxStart uint64, disjoint bool) (extents, uint64) {
	var es extents
	var fb uint32
	names := [][2]string{{"c0", "s0"}, {"c1", "s1"}, {"c2", "s2"}, {"c3", "s3"}}
	for i := 0; i < k; i++ {
		c := vp.U16(names[i][0])
		s := uint64(vp.U32(names[i][1]))
		vp.Assume(c >= 1)
		vp.Assume(c <= maxCount)
		vp.Assume(s >= 1)
		vp.Assume(s <= maxStart)
		es = append(es, extent{fileBlock: fb, startingBlock: s, count: c})
		fb += uint32(c)
	}
	// disk ranges pairwise disjoint
	for i := 0; disjoint && i < k; i++ {
		for j := i + 1; j < k; j++ {
			iBeforeJ := es[i].startingBlock+uint64(es[i].count) <= es[j].startingBlock
			jBeforeI := es[j].startingBlock+uint64(es[j].count) <= es[i].startingBlock
			vp.Assume(iBeforeJ != jBeforeI || iBeforeJ)
		}
	}
	return es, uint64(fb)
}

// c04DiskPos is the specification's mapping of file position p to a device offset.
func c04DiskPos(es extents, bs int64, p int64) int64 {
	var r int64 = -1
	for i := range es {
		lo := int64(es[i].fileBlock) * bs
		hi := lo + int64(es[i].count)*bs
		in := p >= lo
		if p >= hi {
			in = false
		}
		r = vp.IteI64(in, int64(es[i].startingBlock)*bs+(p-lo), r)
	}
	return r
}

// c04ExtEnd is the file position at which the extent containing file position p ends (-1: none).
func c04ExtEnd(es extents, bs int64, p int64) int64 {
	var r int64 = -1
	for i := range es {
		lo := int64(es[i].fileBlock) * bs
		hi := lo + int64(es[i].count)*bs
		in := p >= lo
		if p >= hi {
			in = false
		}
		r = vp.IteI64(in, hi, r)
	}
	return r
}

func c04File(dev backend.Storage, bs uint32, es extents, size uint64, off int64, rw bool) *File {
	fsys := &FileSystem{superblock: &superblock{blockSize: bs}, backend: dev}
	return &File{
		inode:       &inode{number: 12, size: size, fileType: fileTypeRegularFile, flags: &inodeFlags{usesExtents: true}},
		isReadWrite: rw,
		offset:      off,
		filesystem:  fsys,
		extents:     es,
		fileType:    dirFileTypeRegular,
		filename:    "f",
	}
}

// c04ReadMap: one Read call on a K-extent file.
// content mode (bs small): every delivered byte is compared with the device byte the
// specification maps it to.
func c04ReadMap(k int, bs uint32, maxCount uint16, maxStart uint64, maxLen int) {
	es, blocks := c04Ext(k, maxCount, maxStart, false)
	size := uint64(vp.U32("size"))
	vp.Assume(size <= blocks*uint64(bs)) // extents cover the file
	off := int64(vp.U32("off"))
	vp.Assume(off <= int64(size)+int64(bs))
	n := int(vp.U8("len"))
	vp.Assume(n <= maxLen)
	dev := &c04PatDev{}
	dev.NoWrites = true
	fl := c04File(dev, bs, es, size, off, false)
	vp.AllocCap(maxLen)
	vp.Unwind(6*maxLen + 8) // the check loops below run maxLen x (device reads) iterations
	buf := make([]byte, n)
	vp.NoPanic()
	got, err := fl.Read(buf)
	vp.AllowPanic()

	want := int64(0)
	if off < int64(size) {
		want = int64(size) - off
		if int64(n) < want {
			want = int64(n)
		}
	}
	if err != nil {
		vp.Assert(err == io.EOF, "Read fails only with io.EOF on a well-formed file")
		vp.Assert(off+int64(got) >= int64(size), "io.EOF only at the end of the file")
	}
	vp.Assert(got >= 0, "count not negative")
	vp.Assert(int64(got) <= want, "no more bytes than requested and than the file holds")
	if want > 0 {
		vp.Assert(got > 0, "progress: a non-empty read inside the file delivers bytes")
	} else if n > 0 {
		vp.Assert(err == io.EOF, "read at or after the end reports io.EOF")
	}
	vp.Assert(fl.offset == off+int64(got), "handle offset advances by the bytes delivered")
	// the device reads issued: consecutive pieces of [off, off+got), each inside one extent, each
	// at the device offset the extent list maps its file position to
	pos := off
	for c := range dev.rOff {
		l := int64(dev.rLen[c])
		if l > 0 {
			vp.Assert(dev.rOff[c] == c04DiskPos(es, int64(bs), pos), "device read starts where the extent list maps the file position")
			vp.Assert(pos+l <= c04ExtEnd(es, int64(bs), pos), "device read stays inside one extent")
		}
		pos += l
	}
	vp.Assert(pos == off+int64(got), "bytes delivered = bytes read from the device")
	for j := 0; j < maxLen; j++ {
		if j < got {
			var want byte
			st := 0
			for c := range dev.rLen {
				in := j >= st
				if j >= st+dev.rLen[c] {
					in = false
				}
				want = vp.IteU8(in, byte(c<<6+(j-st)), want)
				st += dev.rLen[c]
			}
			vp.Assert(buf[j] == want, "buffer = concatenation of the device reads in order")
		}
	}
	if int64(got) == want {
		if want > 0 {
			vp.Cover("full read")
		}
	}
	if got > int(bs) {
		vp.Cover("read longer than a block")
	}
	if off >= int64(size) {
		vp.Cover("read at end")
	}
}

func VP_C04_read_map_k1() { c04ReadMap(1, 4, 3, 1<<31, 8) }
func VP_C04_read_map_k2() { c04ReadMap(2, 4, 2, 1<<31, 8) }
func VP_C04_read_map_k3() { c04ReadMap(3, 2, 2, 1<<31, vp.Bound("readlen3", 6, 10)) }

// real block sizes, arbitrary extent sizes / positions, short reads (arithmetic at scale)
func VP_C04_read_map_1k() { c04ReadMap(2, 1024, 32768, 1<<31, 4) }
func VP_C04_read_map_4k() { c04ReadMap(3, 4096, 32768, 1<<31, 3) }

// c04WriteMap: one Write call that stays inside the file (size unchanged, nothing to allocate):
// the bytes land at the device offsets the extent list maps the positions to, nothing else is
// written, the count is len(b) and the handle offset advances.
func c04WriteMap(k int, bs uint32, maxCount uint16, maxStart uint64, maxLen int) {
	es, blocks := c04Ext(k, maxCount, maxStart, true)
	size := uint64(vp.U32("size"))
	vp.Assume(size <= blocks*uint64(bs))
	off := int64(vp.U32("off"))
	n := int(vp.U8("len"))
	vp.Assume(n <= maxLen)
	vp.Assume(off+int64(n) <= int64(size)) // overwrite inside the file
	dev := vpdev.NewMemDev("disk", -1)
	fl := c04File(dev, bs, es, size, off, true)
	vp.AllocCap(maxLen)
	vp.Unwind(6*maxLen + 8)
	data := make([]byte, n)
	vp.Fill(data, "data")
	vp.NoPanic()
	got, err := fl.Write(data)
	vp.AllowPanic()
	// KF-C04-4: after the last byte is written the loop goes on to the following extents with an
	// empty slice at device offset start*bs-(distance to the end of the write), which is negative
	// (rejected by the device) when that extent lies at a low disk block
	end := off + int64(n)
	kf4 := false
	for i := range es {
		lo := int64(es[i].fileBlock) * int64(bs)
		if lo > end {
			if int64(es[i].startingBlock)*int64(bs) < lo-end {
				kf4 = true
			}
		}
	}
	vp.AssertUnless("KF-C04-4", kf4, err == nil, "overwrite inside a well-formed file succeeds")
	vp.Assert(got == n, "Write reports len(b) bytes written")
	vp.Assert(fl.offset == off+int64(n), "handle offset advances by the bytes written")
	vp.Assert(fl.size == size, "size unchanged by an overwrite inside the file")
	pos := off
	for c := range dev.Log {
		w := dev.Log[c]
		l := int64(w.Len)
		if l > 0 {
			vp.Assert(w.Off == c04DiskPos(es, int64(bs), pos), "device write starts where the extent list maps the file position")
			vp.Assert(pos+l <= c04ExtEnd(es, int64(bs), pos), "device write stays inside one extent")
			for j := 0; j < maxLen; j++ {
				if int64(j) < l {
					vp.Assert(w.Data[j] == data[int(pos-off)+j], "device receives the caller's bytes in order")
				}
			}
		}
		pos += l
	}
	vp.Assert(pos == off+int64(n), "every byte of b reaches the device exactly once")
	if n > int(bs) {
		vp.Cover("write longer than a block")
	}
	if len(dev.Log) >= 2 {
		vp.Cover("write split over extents")
	}
	vp.Cover("overwrite done")
}

func VP_C04_write_map_k1() { c04WriteMap(1, 4, 3, 1<<31, 8) }
func VP_C04_write_map_k2() { c04WriteMap(2, 4, 2, 1<<31, 8) }
func VP_C04_write_map_k3() { c04WriteMap(3, 2, 2, 1<<31, vp.Bound("writelen3", 6, 10)) }
func VP_C04_write_map_1k() { c04WriteMap(2, 1024, 32768, 1<<31, 4) }
func VP_C04_write_map_4k() { c04WriteMap(3, 4096, 32768, 1<<31, 3) }

package timestamp

import (
	"os"

	"github.com/diskfs/go-diskfs/internal/vp"
)

// probe
func VP_C14_clock_probe() {
	os.Setenv("SOURCE_DATE_EPOCH", "1234567891")
	t := GetTime()
	vp.Assert(vp.NondetSources() == 0, "no nondeterminism source consulted")
	vp.Assert(t.Unix() == 1234567891, "time is the epoch")
	vp.Cover("done")
}

package timestamp

import (
	"os"

	"github.com/diskfs/go-diskfs/internal/vp"
)

// C14 (clock): with SOURCE_DATE_EPOCH set to a decimal number, GetTime - the only clock the FAT
// directory code reads - never looks at the wall clock and returns exactly that second, in UTC.

// c14Value sets SOURCE_DATE_EPOCH to <prefix><n arbitrary digits> (prefix: optional '-' and concrete
// leading digits, case-split) and returns the number it denotes.
func c14Value(prefix string, n int) int64 {
	b := []byte(prefix)
	neg := false
	var v int64
	for i := 0; i < len(prefix); i++ {
		if prefix[i] == '-' {
			neg = true
			continue
		}
		v = v*10 + int64(prefix[i]-'0')
	}
	for i := 0; i < n; i++ {
		d := vp.U8("digit"+string(rune('a'+i))) % 10 // every digit value; the range is visible to the engine without a solver call
		b = append(b, '0'+d)
		v = v*10 + int64(d)
	}
	if neg {
		v = -v
	}
	os.Setenv("SOURCE_DATE_EPOCH", string(b))
	return v
}

func c14Clock(prefix string, n int) {
	v := c14Value(prefix, n)
	t1 := GetTime()
	t2 := GetTime()
	vp.Assert(t1.Unix() == v, "GetTime returns the second named by SOURCE_DATE_EPOCH")
	vp.Assert(t1.Nanosecond() == 0, "no sub-second part")
	vp.Assert(t1.Equal(t2), "two calls return the same instant")
	_, off := t1.Zone()
	vp.Assert(off == 0, "the time is in UTC (no dependence on the local time zone)")
	vp.Assert(vp.NondetSources() == 0, "with SOURCE_DATE_EPOCH set the wall clock is not consulted")
	vp.Cover("epoch honoured")
}

func VP_C14_clock_epoch_small()  { c14Clock("", vp.Bound("digits", 3, 5)) }        // 0 .. 999: "0", leading zeros, 1970
func VP_C14_clock_epoch_1980()   { c14Clock("0315532", vp.Bound("digits", 3, 4)) } // around the FAT epoch 1980-01-01 = 315532800
func VP_C14_clock_epoch_today()  { c14Clock("1700000", vp.Bound("digits", 3, 4)) } // 2023
func VP_C14_clock_epoch_2108()   { c14Clock("4354819", vp.Bound("digits", 3, 4)) } // past the FAT range (2108-01-01 = 4354819200)
func VP_C14_clock_epoch_neg()    { c14Clock("-", vp.Bound("digits", 3, 5)) }       // before 1970
func VP_C14_clock_epoch_maxint() { c14Clock("9223372036854775", 2) }               // up to 19 digits, below 2^63

// VP_C14_clock_detector is NOT part of the claim: it shows that the nondeterminism log is not blind.
// Without a (valid) SOURCE_DATE_EPOCH GetTime falls back to the wall clock, as documented, and the
// engine sees it (otherwise this harness has no reachable Cover and is reported as vacuous).
func VP_C14_clock_detector() {
	os.Setenv("SOURCE_DATE_EPOCH", "12x4")
	_ = GetTime()
	if vp.NondetSources() > 0 {
		vp.Cover("invalid SOURCE_DATE_EPOCH: wall clock consulted and logged")
	}
	os.Unsetenv("SOURCE_DATE_EPOCH")
	_ = GetTime()
	if vp.NondetSources() > 1 {
		vp.Cover("no SOURCE_DATE_EPOCH: wall clock consulted and logged")
	}
}

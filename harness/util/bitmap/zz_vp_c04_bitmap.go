package bitmap

import (
	"github.com/diskfs/go-diskfs/internal/vp"
)

// C04.bitmap: the bitmap primitives behind the ext4 block/inode allocator against a bit-level
// specification: bit i of the map is bit (i%8) of byte (i/8).

func c04bmBytes() ([]byte, int) {
	nb := vp.Bound("bitmapbytes", 3, 4)
	return vp.Bytes("bits", nb), nb
}

// refBit is the specification's view of bit i of b.
func c04refBit(b []byte, i int) bool { return (b[i/8]>>(uint(i)%8))&1 == 1 }

// c04SetClear: Set/Clear change exactly the addressed bit; out-of-range locations give an
// error (never a panic) and leave the map unchanged.
func c04SetClear(set bool) {
	b, nb := c04bmBytes()
	loc := vp.Int("loc")
	bm := FromBytes(b)
	vp.NoPanic()
	var err error
	if set {
		err = bm.Set(loc)
	} else {
		err = bm.Clear(loc)
	}
	out := bm.ToBytes()
	vp.AllowPanic()
	vp.Assert(len(out) == nb, "size of the map unchanged")
	inRange := loc >= 0
	if loc >= nb*8 {
		inRange = false
	}
	if inRange {
		vp.Assert(err == nil, "in-range location accepted")
		for i := 0; i < nb; i++ {
			want := b[i]
			mask := vp.IteU8(i == loc/8, byte(1)<<(uint(loc)%8), 0)
			if set {
				want |= mask
			} else {
				want &^= mask
			}
			vp.Assert(out[i] == want, "exactly the addressed bit changes")
		}
		vp.Cover("in-range set/clear")
	} else {
		vp.Assert(err != nil, "out-of-range location refused")
		for i := 0; i < nb; i++ {
			vp.Assert(out[i] == b[i], "refused operation leaves the map unchanged")
		}
		vp.Cover("out-of-range set/clear")
	}
}

func VP_C04_bitmap_set()   { c04SetClear(true) }
func VP_C04_bitmap_clear() { c04SetClear(false) }

// VP_C04_bitmap_isset: IsSet reports the addressed bit; out-of-range locations give an error.
func VP_C04_bitmap_isset() {
	b, nb := c04bmBytes()
	loc := vp.Int("loc")
	bm := FromBytes(b)
	// KF-C04-1: IsSet checks byteNumber > len instead of >=: locations len*8 .. len*8+7 index
	// one byte past the map
	vp.NoPanic()
	got, err := bm.IsSet(loc)
	vp.AllowPanic()
	inRange := loc >= 0
	if loc >= nb*8 {
		inRange = false
	}
	if inRange {
		vp.Assert(err == nil, "in-range location accepted")
		want := false
		for i := 0; i < nb; i++ {
			if i == loc/8 {
				want = (b[i]>>(uint(loc)%8))&1 == 1
			}
		}
		vp.Assert(got == want, "IsSet returns the addressed bit")
		vp.Cover("in-range isset")
	} else {
		vp.Assert(err != nil, "out-of-range location refused")
		vp.Cover("out-of-range isset")
	}
}

// VP_C04_bitmap_firstfree: FirstFree(start) is the smallest clear index >= max(start,0), -1 if none.
func VP_C04_bitmap_firstfree() {
	b, nb := c04bmBytes()
	start := vp.Int("start")
	bm := FromBytes(b)
	vp.NoPanic()
	got := bm.FirstFree(start)
	vp.AllowPanic()
	want := -1
	for i := nb*8 - 1; i >= 0; i-- {
		ok := !c04refBit(b, i)
		if i < start {
			ok = false
		}
		want = vp.IteInt(ok, i, want)
	}
	vp.Assert(got == want, "FirstFree is the minimal clear index at or after start")
	if got >= 0 {
		vp.Cover("free bit found")
	} else {
		vp.Cover("no free bit")
	}
}

// VP_C04_bitmap_firstset: FirstSet is the smallest set index, -1 if none.
func VP_C04_bitmap_firstset() {
	b, nb := c04bmBytes()
	bm := FromBytes(b)
	vp.NoPanic()
	got := bm.FirstSet()
	vp.AllowPanic()
	want := -1
	for i := nb*8 - 1; i >= 0; i-- {
		want = vp.IteInt(c04refBit(b, i), i, want)
	}
	vp.Assert(got == want, "FirstSet is the minimal set index")
	if got >= 0 {
		vp.Cover("set bit found")
	} else {
		vp.Cover("no set bit")
	}
}

// VP_C04_bitmap_freelist: the runs returned by FreeList are in-range, ordered, maximal, consist
// of clear bits only and together contain every clear bit.
func VP_C04_bitmap_freelist() {
	b := vp.Bytes("bits", 1)
	c04FreeList(b)
}

// VP_C04_bitmap_freelist_cross: the same over two bytes whose 8 middle bits (4..11) are arbitrary,
// so that runs cross the byte boundary (the outer bits are set).
func VP_C04_bitmap_freelist_cross() {
	x := vp.U8("x")
	c04FreeList([]byte{0x0f | x<<4, 0xf0 | x>>4})
}

// the same with the outer bits clear (runs touch both ends of the map)
func VP_C04_bitmap_freelist_cross_clear() {
	x := vp.U8("x")
	c04FreeList([]byte{x << 4, x >> 4})
}

func c04FreeList(b []byte) {
	nb := len(b)
	bm := FromBytes(b)
	vp.NoPanic()
	list := bm.FreeList()
	vp.AllowPanic()
	nbits := nb * 8
	clear := 0
	for i := 0; i < nbits; i++ {
		clear += vp.IteInt(c04refBit(b, i), 0, 1)
	}
	total := 0
	prevEnd := -1
	for k := 0; k < len(list); k++ {
		r := list[k]
		vp.Assert(r.Count >= 1, "run is not empty")
		vp.Assert(r.Position >= 0, "run starts inside the map")
		vp.Assert(r.Position+r.Count <= nbits, "run ends inside the map")
		vp.Assert(r.Position > prevEnd, "runs are ordered and separated by at least one set bit")
		for i := 0; i < nbits; i++ {
			in := i >= r.Position
			if i >= r.Position+r.Count {
				in = false
			}
			if in {
				vp.Assert(!c04refBit(b, i), "every bit of a run is clear")
			}
			if i == r.Position-1 {
				vp.Assert(c04refBit(b, i), "run is maximal to the left")
			}
			if i == r.Position+r.Count {
				vp.Assert(c04refBit(b, i), "run is maximal to the right")
			}
		}
		prevEnd = r.Position + r.Count
		total += r.Count
	}
	vp.Assert(total == clear, "the runs contain every clear bit")
	if len(list) >= 2 {
		vp.Cover("two or more runs")
	}
	if len(list) == 0 {
		vp.Cover("no free run")
	}
	vp.Cover("freelist done")
}

// VP_C04_bitmap_bytes: FromBytes/ToBytes copy (no aliasing with the caller's slice) and round-trip.
func VP_C04_bitmap_bytes() {
	b, nb := c04bmBytes()
	orig := make([]byte, nb)
	copy(orig, b)
	bm := FromBytes(b)
	b[0] ^= 0xff // the caller's slice is not the map
	out := bm.ToBytes()
	for i := 0; i < nb; i++ {
		vp.Assert(out[i] == orig[i], "ToBytes(FromBytes(b)) == b")
	}
	out[0] ^= 0xff // the returned slice is not the map either
	out2 := bm.ToBytes()
	vp.Assert(out2[0] == orig[0], "ToBytes returns a copy")
	bm.FromBytes(b)
	out3 := bm.ToBytes()
	vp.Assert(out3[0] == b[0], "method FromBytes replaces the contents")
	vp.Cover("bytes round trip")
}

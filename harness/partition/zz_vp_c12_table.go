package partition

import (
	"github.com/diskfs/go-diskfs/internal/vp"
	"github.com/diskfs/go-diskfs/internal/vp/vpdev"
	"github.com/diskfs/go-diskfs/partition/gpt"
	"github.com/diskfs/go-diskfs/partition/mbr"
)

// ---------------------------------------------------------------------------------------
// C12.table_probe: what partition.Read (the probe behind Disk.GetPartitionTable) reports for
// a disk on which a table was written with Table.Write: a GPT disk is "gpt" (never its
// protective MBR), an MBR disk is "mbr", a blank disk has no table.
// Partition geometry is symbolic; disk size, sector size, protective MBR on/off are case-split.
// ---------------------------------------------------------------------------------------

const (
	c12DiskGUID = "43E51892-3273-42F7-BCDA-B43B80CDFC48"
	c12PartGUID = "5CA3360B-5DE6-4FCF-B4CE-419CEE433B51"
)

// c12GptTable: one partition with arbitrary valid start/end inside the usable area.
func c12GptTable(diskSize int64, lss int, pmbr bool) *gpt.Table {
	sectors := uint64(diskSize) / uint64(lss)
	arraySectors := uint64(128*128) / uint64(lss)
	firstUsable := 2 + arraySectors
	lastUsable := sectors - 2 - arraySectors
	s, e := vp.U64("gpt.start"), vp.U64("gpt.end")
	vp.Assume(s >= firstUsable)
	vp.Assume(e >= s)
	vp.Assume(e <= lastUsable)
	p := &gpt.Partition{Index: 1, Start: s, End: e, Type: gpt.LinuxFilesystem, Name: "data", GUID: c12PartGUID}
	return &gpt.Table{Partitions: []*gpt.Partition{p}, LogicalSectorSize: lss, PhysicalSectorSize: lss, GUID: c12DiskGUID, ProtectiveMBR: pmbr}
}

// c12MbrTable: one partition with arbitrary type/start/size.
func c12MbrTable() *mbr.Table {
	p := &mbr.Partition{Type: mbr.Type(vp.U8("mbr.type")), Start: vp.U32("mbr.start"), Size: vp.U32("mbr.size"), Bootable: vp.Bool("mbr.boot")}
	return &mbr.Table{Partitions: []*mbr.Partition{p}, LogicalSectorSize: 512, PhysicalSectorSize: 512}
}

// c12GptProbe: the disk previously held arbitrary bytes in sector 0 (e.g. an old MBR, boot code);
// a GPT is written; the freshly opened disk is reported as GPT with the partition written.
func c12GptProbe(diskSize int64, lss int, pmbr bool) {
	t := c12GptTable(diskSize, lss, pmbr)
	dev := vpdev.NewMemDev("disk", diskSize)
	dev.Image = vp.Bytes("oldsector0", 512) // stale sector 0 (an earlier MBR, boot code, ...)
	err := t.Write(dev, diskSize)
	vp.Assert(err == nil, "gpt Write accepts the table")
	n := len(dev.Log)
	vp.Unwind(40)
	got, err := Read(dev, lss, lss)
	vp.Assert(err == nil, "a table is found on a disk that carries a GPT")
	vp.Assert(len(dev.Log) == n, "probing does not write")
	vp.Assert(got.Type() == "gpt", "a GPT disk is reported as GPT, not as its protective MBR")
	g, ok := got.(*gpt.Table)
	vp.Assert(ok, "the table returned is a *gpt.Table")
	vp.Assert(len(g.Partitions) == 1, "the partition written is reported")
	vp.Assert(g.Partitions[0].Start == t.Partitions[0].Start, "partition start survives")
	vp.Assert(g.Partitions[0].End == t.Partitions[0].End, "partition end survives")
	if pmbr {
		vp.Assert(g.ProtectiveMBR, "the protective MBR that was written is seen")
	}
	vp.Cover("gpt disk probed")
}

func VP_C12_table_probe_gpt_512_pmbr()   { c12GptProbe(1<<20, 512, true) }
func VP_C12_table_probe_gpt_512_nopmbr() { c12GptProbe(1<<20, 512, false) }
func VP_C12_table_probe_gpt_4096_pmbr()  { c12GptProbe(1<<20, 4096, true) }
func VP_C12_table_probe_gpt_4096_nopmbr() {
	if vp.Thorough() {
		c12GptProbe(1<<20, 4096, false)
	} else {
		vp.Cover("thorough tier only")
	}
}
func VP_C12_table_probe_gpt_min_512() { c12GptProbe(70*512, 512, true) }

// c12MbrProbe: an MBR written on a blank disk is reported as MBR.
func VP_C12_table_probe_mbr_blank() {
	t := c12MbrTable()
	dev := vpdev.NewMemDev("disk", 1<<20)
	err := t.Write(dev, 1<<20)
	vp.Assert(err == nil, "mbr Write accepts the table")
	vp.Unwind(40)
	got, err := Read(dev, 512, 512)
	vp.Assert(err == nil, "a table is found on a disk that carries an MBR")
	vp.Assert(got.Type() == "mbr", "an MBR disk is reported as MBR")
	m, ok := got.(*mbr.Table)
	vp.Assert(ok, "the table returned is a *mbr.Table")
	vp.Assert(m.Partitions[0].Start == t.Partitions[0].Start, "partition start survives")
	vp.Assert(m.Partitions[0].Size == t.Partitions[0].Size, "partition size survives")
	vp.Assert(m.Partitions[0].Type == t.Partitions[0].Type, "partition type survives")
	vp.Cover("mbr disk probed")
}

// VP_C12_table_probe_mbr_over_gpt: the disk was partitioned with a GPT before and is now
// re-partitioned with an MBR (the previous GPT structures are stale bytes the MBR writer does not
// touch). The freshly opened disk must be reported as the MBR disk it now is.
func VP_C12_table_probe_mbr_over_gpt() {
	const diskSize = 1 << 20
	old := c12GptTable(diskSize, 512, true)
	dev := vpdev.NewMemDev("disk", diskSize)
	err := old.Write(dev, diskSize)
	vp.Assert(err == nil, "gpt Write accepts the table")
	t := c12MbrTable()
	vp.Assume(t.Partitions[0].Type != 0xee) // the new table is not a protective MBR
	err = t.Write(dev, diskSize)
	vp.Assert(err == nil, "mbr Write accepts the table")
	vp.Unwind(40)
	got, err := Read(dev, 512, 512)
	vp.Assert(err == nil, "a table is found")
	staleGPT := dev.ByteAt(512) == 'E' && dev.ByteAt(513) == 'F' && dev.ByteAt(514) == 'I' // an "EFI PART" header is still in LBA 1
	vp.Cover("mbr over stale gpt probed")
	vp.AssertUnless("KF-C12-3", staleGPT, got.Type() == "mbr", "a disk re-partitioned with an MBR is reported as MBR, not as the GPT it carried before")
}

// c12Blank: a blank disk has no partition table.
func c12Blank(size int64, lss int) {
	dev := vpdev.NewMemDev("disk", size)
	dev.NoWrites = true
	vp.Unwind(40)
	got, err := Read(dev, lss, lss)
	vp.Assert(err != nil, "a blank disk has no partition table")
	vp.Assert(got == nil, "no table is returned for a blank disk")
	vp.Cover("blank disk probed")
}

func VP_C12_table_probe_blank_512()  { c12Blank(1<<20, 512) }
func VP_C12_table_probe_blank_4096() { c12Blank(1<<20, 4096) }

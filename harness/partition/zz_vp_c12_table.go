package partition

import (
	"github.com/diskfs/go-diskfs/internal/vp"
	"github.com/diskfs/go-diskfs/internal/vp/vpdev"
	"github.com/diskfs/go-diskfs/partition/gpt"
	"github.com/diskfs/go-diskfs/partition/mbr"
)

// ---------------------------------------------------------------------------------------
// C12.table_probe: what partition.Read (the probe behind Disk.GetPartitionTable) reports for
// a disk on which a table was written with Table.Write: a GPT disk is "gpt" (never its
// protective MBR), an MBR disk is "mbr", a blank disk has no table.
// Partition geometry is symbolic; disk size, sector size, protective MBR on/off are case-split.
// ---------------------------------------------------------------------------------------

const (
	c12DiskGUID = "43E51892-3273-42F7-BCDA-B43B80CDFC48"
	c12PartGUID = "5CA3360B-5DE6-4FCF-B4CE-419CEE433B51"
)

// c12GptTable: one partition with arbitrary valid start/end inside the usable area.
func c12GptTable(diskSize int64, lss int, pmbr, sym bool) *gpt.Table {
	sectors := uint64(diskSize) / uint64(lss)
	arraySectors := uint64(128*128) / uint64(lss)
	firstUsable := 2 + arraySectors
	lastUsable := sectors - 2 - arraySectors
	s, e := firstUsable+3, lastUsable-5
	if sym {
		s, e = vp.U64("gpt.start"), vp.U64("gpt.end")
	}
	vp.Assume(s >= firstUsable)
	vp.Assume(e >= s)
	vp.Assume(e <= lastUsable)
	p := &gpt.Partition{Index: 1, Start: s, End: e, Type: gpt.LinuxFilesystem, Name: "data", GUID: c12PartGUID}
	return &gpt.Table{Partitions: []*gpt.Partition{p}, LogicalSectorSize: lss, PhysicalSectorSize: lss, GUID: c12DiskGUID, ProtectiveMBR: pmbr}
}

// c12MbrTable: one partition with arbitrary type/start/size.
func c12MbrTable() *mbr.Table {
	p := &mbr.Partition{Type: mbr.Type(vp.U8("mbr.type")), Start: vp.U32("mbr.start"), Size: vp.U32("mbr.size"), Bootable: vp.Bool("mbr.boot")}
	return &mbr.Table{Partitions: []*mbr.Partition{p}, LogicalSectorSize: 512, PhysicalSectorSize: 512}
}

// c12GptProbe: the disk previously held arbitrary bytes in sector 0 (e.g. an old MBR, boot code);
// a GPT is written; the freshly opened disk is reported as GPT with the partition written.
func c12GptProbe(diskSize int64, lss int, pmbr, sym bool) {
	t := c12GptTable(diskSize, lss, pmbr, sym)
	dev := vpdev.NewMemDev("disk", diskSize)
	dev.Image = vp.Bytes("oldsector0", 512) // stale sector 0 (an earlier MBR, boot code, ...)
	err := t.Write(dev, diskSize)
	vp.Assert(err == nil, "gpt Write accepts the table")
	vp.Cover("gpt table written")
	n := len(dev.Log)
	vp.Unwind(40)
	got, err := Read(dev, lss, lss)
	vp.Assert(err == nil, "a table is found on a disk that carries a GPT")
	vp.Assert(len(dev.Log) == n, "probing does not write")
	vp.Assert(got.Type() == "gpt", "a GPT disk is reported as GPT, not as its protective MBR")
	g, ok := got.(*gpt.Table)
	vp.Assert(ok, "the table returned is a *gpt.Table")
	vp.Assert(len(g.Partitions) == 1, "the partition written is reported")
	vp.Assert(g.Partitions[0].Start == t.Partitions[0].Start, "partition start survives")
	vp.Assert(g.Partitions[0].End == t.Partitions[0].End, "partition end survives")
	if pmbr {
		vp.Assert(g.ProtectiveMBR, "the protective MBR that was written is seen")
	}
	// "in any partition" presupposes that the session that wrote the table (where CreateFilesystem
	// puts the filesystem) and the freshly opened disk (where GetFilesystem looks for it) agree on
	// the partition's byte range: first LBA x logical sector size, (last-first+1) sectors long
	// (UEFI 2.x 5.3.3)
	s, e := t.Partitions[0].Start, t.Partitions[0].End
	wantStart := int64(s) * int64(lss)
	wantSize := int64(e-s+1) * int64(lss)
	vp.Assert(g.Partitions[0].GetStart() == wantStart, "fresh disk: the partition starts at first LBA x logical sector size")
	vp.Assert(g.Partitions[0].GetSize() == wantSize, "fresh disk: the partition is (last-first+1) x logical sector size long")
	vp.Assert(t.Partitions[0].GetSize() == wantSize, "writing session: the partition is (last-first+1) x logical sector size long")
	vp.Cover("gpt disk probed")
	vp.AssertUnless("KF-C12-4", lss != 512, t.Partitions[0].GetStart() == wantStart, "writing session: the partition starts at first LBA x logical sector size")
}

// symbolic geometry goes through the (uninterpreted) CRC of the entry array; the variants with
// concrete geometry are evaluated exactly, so that a reader looking at the wrong place is refuted
func VP_C12_table_probe_gpt_512_pmbr()   { c12GptProbe(1<<20, 512, true, true) }
func VP_C12_table_probe_gpt_512_nopmbr() { c12GptProbe(1<<20, 512, false, false) }
func VP_C12_table_probe_gpt_4096_pmbr()  { c12GptProbe(1<<20, 4096, true, false) }
func VP_C12_table_probe_gpt_4096_nopmbr() {
	if vp.Thorough() {
		c12GptProbe(1<<20, 4096, false, true)
	} else {
		vp.Cover("thorough tier only")
	}
}
func VP_C12_table_probe_gpt_min_512() {
	if vp.Thorough() {
		c12GptProbe(70*512, 512, true, true)
	} else {
		vp.Cover("thorough tier only")
	}
}

// c12MbrProbe: an MBR written on a blank disk is reported as MBR.
func VP_C12_table_probe_mbr_blank() {
	t := c12MbrTable()
	dev := vpdev.NewMemDev("disk", 1<<20)
	err := t.Write(dev, 1<<20)
	vp.Assert(err == nil, "mbr Write accepts the table")
	vp.Unwind(40)
	got, err := Read(dev, 512, 512)
	vp.Assert(err == nil, "a table is found on a disk that carries an MBR")
	vp.Assert(got.Type() == "mbr", "an MBR disk is reported as MBR")
	m, ok := got.(*mbr.Table)
	vp.Assert(ok, "the table returned is a *mbr.Table")
	vp.Assert(m.Partitions[0].Start == t.Partitions[0].Start, "partition start survives")
	vp.Assert(m.Partitions[0].Size == t.Partitions[0].Size, "partition size survives")
	vp.Assert(m.Partitions[0].Type == t.Partitions[0].Type, "partition type survives")
	vp.Cover("mbr disk probed")
}

// VP_C12_table_probe_mbr_over_gpt: the disk was partitioned with a GPT before and is now
// re-partitioned with an MBR (the previous GPT structures are stale bytes the MBR writer does not
// touch). The freshly opened disk must be reported as the MBR disk it now is.
func VP_C12_table_probe_mbr_over_gpt() {
	const diskSize = 1 << 20
	// the earlier GPT (concrete: one partition, protective MBR)
	old := &gpt.Table{LogicalSectorSize: 512, PhysicalSectorSize: 512, GUID: c12DiskGUID, ProtectiveMBR: true, Partitions: []*gpt.Partition{
		{Index: 1, Start: 64, End: 1000, Type: gpt.LinuxFilesystem, Name: "data", GUID: c12PartGUID}}}
	dev := vpdev.NewMemDev("disk", diskSize)
	err := old.Write(dev, diskSize)
	vp.Assert(err == nil, "gpt Write accepts the table")
	t := c12MbrTable()
	vp.Assume(t.Partitions[0].Type != 0xee) // the new table is not a protective MBR
	err = t.Write(dev, diskSize)
	vp.Assert(err == nil, "mbr Write accepts the table")
	vp.Unwind(40)
	got, err := Read(dev, 512, 512)
	vp.Assert(err == nil, "a table is found")
	staleGPT := dev.ByteAt(512) == 'E' && dev.ByteAt(513) == 'F' && dev.ByteAt(514) == 'I' // an "EFI PART" header is still in LBA 1
	vp.Cover("mbr over stale gpt probed")
	vp.AssertUnless("KF-C12-3", staleGPT, got.Type() == "mbr", "a disk re-partitioned with an MBR is reported as MBR, not as the GPT it carried before")
}

// c12Blank: a blank disk has no partition table.
func c12Blank(size int64, lss int) {
	dev := vpdev.NewMemDev("disk", size)
	dev.NoWrites = true
	vp.Unwind(40)
	got, err := Read(dev, lss, lss)
	vp.Assert(err != nil, "a blank disk has no partition table")
	vp.Assert(got == nil, "no table is returned for a blank disk")
	vp.Cover("blank disk probed")
}

func VP_C12_table_probe_blank_512()  { c12Blank(1<<20, 512) }
func VP_C12_table_probe_blank_4096() { c12Blank(1<<20, 4096) }

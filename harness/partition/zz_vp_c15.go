package partition

import (
	"github.com/diskfs/go-diskfs/internal/vp"
	"github.com/diskfs/go-diskfs/internal/vp/vpdev"
)

// c15Probe: partition.Read (GPT first, then MBR) on an arbitrary small device.
func c15Probe(size int64, lss int) {
	dev := vpdev.NewMemDev("disk", size)
	dev.UF = true
	dev.NoWrites = true
	vp.Unwind(40)
	vp.AllocCap(200)
	vp.AllocLimit(uint64(2*size + 4<<20))
	vp.NoPanic()
	t, err := Read(dev, lss, lss)
	vp.AllowPanic()
	if err == nil {
		vp.Assert(t != nil, "a table is returned when there is no error")
		vp.Cover("arbitrary device accepted")
	} else {
		vp.Cover("arbitrary device rejected")
	}
}

func VP_C15_probe_0()    { c15Probe(0, 512) }
func VP_C15_probe_600()  { c15Probe(600, 512) }
func VP_C15_probe_1024() { c15Probe(1024, 512) }
func VP_C15_probe_4k() {
	if vp.Thorough() {
		c15Probe(8192, 4096)
	}
}

package mbr

import (
	"github.com/diskfs/go-diskfs/internal/vp"
	"github.com/diskfs/go-diskfs/internal/vp/vpdev"
)

// c15Arbitrary: mbr.Read on an arbitrary device of the given size: no panic, no write,
// and whatever it returns was decoded from the device's bytes.
func c15MbrArbitrary(size int64) {
	dev := vpdev.NewMemDev("disk", size)
	dev.UF = true
	dev.NoWrites = true
	vp.AllocLimit(uint64(2*size + 4<<20))
	vp.NoPanic()
	t, err := Read(dev, 512, 512)
	vp.AllowPanic()
	if err == nil {
		vp.Assert(t != nil && len(t.Partitions) == 4, "four slots")
		vp.Assert(dev.ByteAt(510) == 0x55 && dev.ByteAt(511) == 0xaa, "accepted only with the 55AA signature")
		for i := 0; i < 4; i++ {
			o := int64(446 + 16*i)
			p := t.Partitions[i]
			st := uint32(dev.ByteAt(o+8)) | uint32(dev.ByteAt(o+9))<<8 | uint32(dev.ByteAt(o+10))<<16 | uint32(dev.ByteAt(o+11))<<24
			vp.Assert(p.Start == st, "start decoded from the slot's bytes")
			vp.Assert(byte(p.Type) == dev.ByteAt(o+4), "type decoded from the slot's bytes")
		}
		vp.Cover("arbitrary sector accepted as MBR")
	} else {
		vp.Cover("arbitrary sector rejected")
	}
}

func VP_C15_mbr_arbitrary_0()    { c15MbrArbitrary(0) }
func VP_C15_mbr_arbitrary_300()  { c15MbrArbitrary(300) }
func VP_C15_mbr_arbitrary_512()  { c15MbrArbitrary(512) }
func VP_C15_mbr_arbitrary_4096() { c15MbrArbitrary(4096) }

package mbr

import (
	"fmt"
	"io"

	"github.com/diskfs/go-diskfs/internal/vp"
	"github.com/diskfs/go-diskfs/internal/vp/vpdev"
)

// c13Write: WriteContents stores the reader's bytes at the partition's own byte offset,
// writes nothing outside the partition, and succeeds iff exactly size bytes were supplied.
func c13Write(lss, pss int) {
	start := vp.U32("start")
	size := vp.U32("size")
	K := vp.Bound("chunks", 3, 5)
	vp.Unwind(K + 3)
	p := &Partition{Start: start, Size: size, logicalSectorSize: lss, physicalSectorSize: pss}
	byteStart := int64(start) * int64(lss)
	byteSize := int64(size) * int64(lss)
	dev := vpdev.NewMemDev("disk", -1)
	dev.Range, dev.Lo, dev.Hi = true, byteStart, byteStart+byteSize
	dev.NoData = true
	rd := &vpdev.ChunkReader{Name: "rd", MaxCalls: K, NoData: true}
	n, err := p.WriteContents(dev, rd)
	var total int64
	for i := range dev.Log {
		w := dev.Log[i]
		vp.Assert(w.Off == byteStart+total, "chunk lands at partition start + bytes written so far")
		total += int64(w.Len)
	}
	if err == nil {
		vp.Assert(int64(n) == byteSize, "success only if exactly the partition size was written")
		vp.Assert(total == byteSize, "success: bytes on device = partition size")
		vp.Assert(rd.Total == byteSize, "success only if the reader supplied exactly the partition size")
		vp.Cover("write succeeded")
	} else {
		vp.Assert(rd.SawErr || rd.Total != byteSize || !rd.SawEOF, "refused only if the reader failed or did not supply exactly the partition size")
		vp.Cover("write refused")
	}
}

func VP_C13_mbr_write_512_512()   { c13Write(512, 512) }
func VP_C13_mbr_write_4096_4096() { c13Write(4096, 4096) }
func VP_C13_mbr_write_512_4096()  { c13Write(512, 4096) }

// VP_C13_mbr_write_data: the bytes that reach the device are the reader's bytes, in order,
// at the partition's offset (chunk size 4 so that contents stay small).
func VP_C13_mbr_write_data() {
	start := vp.U32("start")
	size := vp.U32("size")
	lss, pss := 512, 4
	K := vp.Bound("chunks", 3, 4)
	vp.Unwind(K + 3)
	p := &Partition{Start: start, Size: size, logicalSectorSize: lss, physicalSectorSize: pss}
	byteStart := int64(start) * int64(lss)
	dev := vpdev.NewMemDev("disk", -1)
	rd := &vpdev.ChunkReader{Name: "rd", MaxCalls: K, NoErr: true}
	_, _ = p.WriteContents(dev, rd)
	var pos int64
	for k := 0; k < K; k++ {
		nk := int64(vp.Int(fmt.Sprintf("rd.n%d", k)))
		exp := vp.Bytes(fmt.Sprintf("rd.d%d", k), pss)
		if k < rd.Calls && pos+nk <= dev.Written() {
			for j := 0; j < pss; j++ {
				if int64(j) < nk {
					vp.Assert(dev.ByteAt(byteStart+pos+int64(j)) == exp[j], "device byte equals the reader's byte at the same stream position")
				}
			}
		}
		pos += nk
	}
	vp.Cover("done")
}

// c13Read: ReadContents delivers exactly the partition's bytes (offsets only).
func c13Read(lss, pss int) {
	start := vp.U32("start")
	size := vp.U32("size")
	vp.Assume(size >= 1) // an existing partition (empty slots have no contents to read)
	vp.Assume(size <= uint32(vp.Bound("sectors", 3, 9)))
	vp.Unwind(12)
	p := &Partition{Start: start, Size: size, logicalSectorSize: lss, physicalSectorSize: pss}
	byteStart := int64(start) * int64(lss)
	byteSize := int64(size) * int64(lss)
	dev := &offDev{}
	w := &cntWriter{}
	n, err := p.ReadContents(dev, w)
	vp.Assert(err == nil, "read succeeds on a large enough device")
	vp.Assert(n == byteSize, "ReadContents returns exactly the partition size")
	vp.Assert(w.total == byteSize, "writer receives exactly the partition size")
	vp.Assert(dev.calls == 0 || dev.first == byteStart, "first read is at the partition's byte offset")
	vp.Assert(dev.contig, "reads are contiguous")
	vp.Assert(dev.calls == 0 || dev.next <= byteStart+byteSize, "no read beyond the end of the partition")
	vp.Cover("read done")
}

func VP_C13_mbr_read_512_512()   { c13Read(512, 512) }
func VP_C13_mbr_read_4096_4096() { c13Read(4096, 4096) }
func VP_C13_mbr_read_512_4096()  { c13Read(512, 4096) }

// VP_C13_mbr_read_data: the writer receives the device bytes of exactly the partition range
// (content mode: 4-byte sectors), also when the device returns short reads at its end.
func VP_C13_mbr_read_data() {
	start := vp.U32("start")
	size := vp.U32("size")
	lss, pss := 4, 4
	if vp.Bool("bigpss") {
		pss = 8
	}
	vp.Assume(size >= 1)
	vp.Assume(size <= 3)
	vp.Unwind(10)
	p := &Partition{Start: start, Size: size, logicalSectorSize: lss, physicalSectorSize: pss}
	byteStart := int64(start) * int64(lss)
	byteSize := int64(size) * int64(lss)
	dev := vpdev.NewMemDev("disk", -1)
	dev.UF = true
	w := &vpdev.ChunkWriter{}
	n, err := p.ReadContents(dev, w)
	vp.Assert(err == nil, "read succeeds")
	vp.Assert(n == byteSize, "ReadContents returns exactly the partition size")
	vp.Assert(int64(len(w.Data)) == byteSize, "writer receives exactly the partition size")
	for i := 0; i < 12; i++ {
		if int64(i) < byteSize && i < len(w.Data) {
			vp.Assert(w.Data[i] == dev.ByteAt(byteStart+int64(i)), "writer receives the partition's bytes in order")
		}
	}
	vp.Cover("read data done")
}

// offDev records the offsets of ReadAt calls (content irrelevant here).
type offDev struct {
	vpdev.MemDev
	calls  int
	first  int64
	next   int64
	contig bool
}

func (d *offDev) ReadAt(p []byte, off int64) (int, error) {
	if d.calls == 0 {
		d.first = off
		d.contig = true
	} else if off != d.next {
		d.contig = false
	}
	d.calls++
	d.next = off + int64(len(p))
	return len(p), nil
}

type cntWriter struct{ total int64 }

func (w *cntWriter) Write(p []byte) (int, error) {
	w.total += int64(len(p))
	return len(p), nil
}

var _ = io.EOF

package mbr

import (
	"fmt"

	"github.com/diskfs/go-diskfs/internal/vp"
	"github.com/diskfs/go-diskfs/internal/vp/vpdev"
)

// c02Roundtrip: a table with n (0..4) partitions whose every field is arbitrary is written with
// Table.Write over an arbitrary existing sector 0 and read back with Read.
func c02Roundtrip(n int) {
	t := &Table{LogicalSectorSize: 512, PhysicalSectorSize: 512}
	for i := 0; i < n; i++ {
		pfx := fmt.Sprintf("p%d.", i)
		p := &Partition{
			Bootable:      vp.Bool(pfx + "boot"),
			Type:          Type(vp.U8(pfx + "type")),
			Start:         vp.U32(pfx + "start"),
			Size:          vp.U32(pfx + "size"),
			StartCylinder: vp.U8(pfx + "sc"), StartHead: vp.U8(pfx + "sh"), StartSector: vp.U8(pfx + "ss"),
			EndCylinder: vp.U8(pfx + "ec"), EndHead: vp.U8(pfx + "eh"), EndSector: vp.U8(pfx + "es"),
		}
		t.Partitions = append(t.Partitions, p)
	}
	dev := vpdev.NewMemDev("disk", 1<<40)
	dev.UF = true // arbitrary previous content (boot code, disk signature, old table)
	dev.Range, dev.Lo, dev.Hi = true, 446, 512
	err := t.Write(dev, 1<<40)
	vp.Assert(err == nil, "Write accepts the table")
	// independent view of the bytes: signature and slots (C02, second sentence)
	vp.Assert(dev.ByteAt(510) == 0x55, "signature byte 510 is 0x55")
	vp.Assert(dev.ByteAt(511) == 0xaa, "signature byte 511 is 0xAA")
	for i := 0; i < 4; i++ {
		o := int64(446 + 16*i)
		if i < n {
			p := t.Partitions[i]
			boot := byte(0)
			if p.Bootable {
				boot = 0x80
			}
			vp.Assert(dev.ByteAt(o) == boot, "slot: boot flag byte")
			vp.Assert(dev.ByteAt(o+4) == byte(p.Type), "slot: type byte")
			st := uint32(dev.ByteAt(o+8)) | uint32(dev.ByteAt(o+9))<<8 | uint32(dev.ByteAt(o+10))<<16 | uint32(dev.ByteAt(o+11))<<24
			sz := uint32(dev.ByteAt(o+12)) | uint32(dev.ByteAt(o+13))<<8 | uint32(dev.ByteAt(o+14))<<16 | uint32(dev.ByteAt(o+15))<<24
			vp.Assert(st == p.Start, "slot: little-endian start LBA")
			vp.Assert(sz == p.Size, "slot: little-endian sector count")
		} else {
			for j := int64(0); j < 16; j++ {
				vp.Assert(dev.ByteAt(o+j) == 0, "unused slot is all zero")
			}
		}
	}
	// the library's own reader
	t2, err := Read(dev, 512, 512)
	vp.Assert(err == nil, "Read accepts what Write produced")
	vp.Assert(len(t2.Partitions) == 4, "four slots are reported")
	for i := 0; i < 4; i++ {
		q := t2.Partitions[i]
		if i < n {
			p := t.Partitions[i]
			vp.Assert(q.Index == i+1, "index")
			vp.Assert(q.Bootable == p.Bootable, "bootable flag survives")
			vp.Assert(q.Type == p.Type, "type survives")
			vp.Assert(q.Start == p.Start, "start survives")
			vp.Assert(q.Size == p.Size, "size survives")
			vp.Assert(q.StartCylinder == p.StartCylinder && q.StartHead == p.StartHead && q.StartSector == p.StartSector, "CHS start survives")
			vp.Assert(q.EndCylinder == p.EndCylinder && q.EndHead == p.EndHead && q.EndSector == p.EndSector, "CHS end survives")
			// byte ranges as Disk.GetPartition reports them
			vp.Assert(q.GetStart() == int64(p.Start)*512, "byte start = LBA * 512")
			vp.Assert(q.GetSize() == int64(p.Size)*512, "byte size = sectors * 512")
		} else {
			vp.Assert(q.Type == Empty && q.Start == 0 && q.Size == 0, "remaining slots read back empty")
		}
	}
	vp.Cover("roundtrip done")
}

func VP_C02_mbr_roundtrip_0() { c02Roundtrip(0) }
func VP_C02_mbr_roundtrip_1() { c02Roundtrip(1) }
func VP_C02_mbr_roundtrip_4() { c02Roundtrip(4) }

// VP_C02_mbr_decode_encode: any 512-byte sector that Read accepts is re-encoded to the same 66 bytes.
func VP_C02_mbr_decode_encode() {
	b := vp.Bytes("sector", 512)
	t, err := tableFromBytes(b)
	if err != nil {
		vp.Cover("rejected")
		return
	}
	out := t.toBytes()
	vp.Assert(len(out) == 66, "66 bytes")
	for i := 0; i < 66; i++ {
		vp.Assert(out[i] == b[446+i], "re-encoding an accepted table reproduces its bytes")
	}
	vp.Cover("accepted")
}

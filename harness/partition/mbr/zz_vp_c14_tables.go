package mbr

import (
	"fmt"

	"github.com/diskfs/go-diskfs/internal/vp"
	"github.com/diskfs/go-diskfs/internal/vp/vpdev"
)

// c14Table builds a table with n partitions from the solver variables p<i>.* (same names =
// same values: two calls give two independent objects describing the SAME table).
func c14Table(n int) *Table {
	t := &Table{LogicalSectorSize: 512, PhysicalSectorSize: 512}
	for i := 0; i < n; i++ {
		pfx := fmt.Sprintf("p%d.", i)
		t.Partitions = append(t.Partitions, &Partition{
			Bootable:      vp.Bool(pfx + "boot"),
			Type:          Type(vp.U8(pfx + "type")),
			Start:         vp.U32(pfx + "start"),
			Size:          vp.U32(pfx + "size"),
			StartCylinder: vp.U8(pfx + "sc"), StartHead: vp.U8(pfx + "sh"), StartSector: vp.U8(pfx + "ss"),
			EndCylinder: vp.U8(pfx + "ec"), EndHead: vp.U8(pfx + "eh"), EndSector: vp.U8(pfx + "es"),
		})
	}
	return t
}

// c14SameLog asserts that two devices received the same sequence of writes (offset, length, bytes).
func c14SameLog(a, b *vpdev.MemDev) {
	vp.Assert(len(a.Log) == len(b.Log), "both executions issue the same number of writes")
	for i := range a.Log {
		ra, rb := a.Log[i], b.Log[i]
		vp.Assert(ra.Off == rb.Off, "same write offset in both executions")
		vp.Assert(len(ra.Data) == len(rb.Data), "same write length in both executions")
		var diff byte
		for j := range ra.Data {
			diff |= ra.Data[j] ^ rb.Data[j]
		}
		vp.Assert(diff == 0, "same bytes written in both executions")
	}
}

// c14WriteTwice: the same table (n partitions, every field arbitrary) is written in two independent
// executions onto two disks with arbitrary, different previous content and arbitrary different
// disk sizes passed to Write: the bytes written are identical, no clock/random source is consulted,
// and writing it a second time onto the same disk changes no byte.
func c14WriteTwice(n int) {
	t1, t2 := c14Table(n), c14Table(n)
	d1 := vpdev.NewMemDev("diskA", 1<<40)
	d2 := vpdev.NewMemDev("diskB", 1<<40)
	d1.UF, d2.UF = true, true
	err1 := t1.Write(d1, int64(vp.U32("sizeA"))*512)
	err2 := t2.Write(d2, int64(vp.U32("sizeB"))*512)
	vp.Assert(err1 == nil, "first execution accepted")
	vp.Assert(err2 == nil, "second execution accepted")
	vp.Assert(len(d1.Log) == 1, "one write")
	c14SameLog(d1, d2)
	// the written region is fully determined by the table: independent view of one slot field
	if n > 0 {
		vp.Assert(d1.ByteAt(446+4) == d2.ByteAt(446+4), "type byte of slot 0 identical on both disks")
	}
	// second write of the same table onto disk A: no byte of the disk changes
	before := make([]byte, 512)
	for i := range before {
		before[i] = d1.ByteAt(int64(i))
	}
	err3 := t1.Write(d1, int64(vp.U32("sizeA"))*512)
	vp.Assert(err3 == nil, "rewrite accepted")
	vp.Assert(len(d1.Log) == 2, "rewrite is one write")
	w := d1.Log[1]
	vp.Assert(w.Off >= 0, "rewrite offset not negative")
	vp.Assert(w.Off+int64(len(w.Data)) <= 512, "rewriting an MBR touches sector 0 only")
	for i := range before {
		vp.Assert(d1.ByteAt(int64(i)) == before[i], "writing the same table again changes no byte")
	}
	vp.Assert(vp.NondetSources() == 0, "mbr.Table.Write consults no clock, random source or map order")
	vp.Cover("written twice")
}

func VP_C14_mbr_write_twice_0() { c14WriteTwice(0) }
func VP_C14_mbr_write_twice_2() { c14WriteTwice(2) }
func VP_C14_mbr_write_twice_4() { c14WriteTwice(4) }

// VP_C14_mbr_rewrite_read: ANY sector 0 that Read accepts (all 512 bytes arbitrary): writing the
// table that was read back onto the same disk changes no byte of the disk (boot code, disk
// signature, CHS fields, unused slots included).
func VP_C14_mbr_rewrite_read() {
	dev := vpdev.NewMemDev("disk", 1<<40)
	dev.UF = true
	t, err := Read(dev, 512, 512)
	if err != nil {
		vp.Cover("sector rejected by Read")
		return
	}
	before := make([]byte, 512)
	for i := range before {
		before[i] = dev.ByteAt(int64(i))
	}
	err = t.Write(dev, 1<<40)
	vp.Assert(err == nil, "a table that was read can be written")
	for i := range dev.Log {
		w := dev.Log[i]
		vp.Assert(w.Off >= 0, "write offset not negative")
		vp.Assert(w.Off+int64(len(w.Data)) <= 512, "rewriting an MBR touches sector 0 only")
	}
	for i := range before {
		vp.Assert(dev.ByteAt(int64(i)) == before[i], "rewriting a table that was read from disk changes nothing")
	}
	vp.Assert(len(dev.Log) > 0, "the table was written")
	vp.Assert(vp.NondetSources() == 0, "Read + Write consult no clock, random source or map order")
	if t.Partitions[0].Bootable {
		vp.Cover("bootable first slot")
	}
	vp.Cover("accepted sector rewritten")
}

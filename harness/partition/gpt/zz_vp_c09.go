package gpt

import (
	"fmt"
	"io"

	"github.com/diskfs/go-diskfs/internal/vp"
	"github.com/diskfs/go-diskfs/internal/vp/vpdev"
)

// crashDev presents the device as it is after power was lost while the writes of
// log[n0:] were being carried out: writes of epochs before k are durable, writes of epochs
// after k are lost, and of every write of epoch k an arbitrary subset of its 512-byte
// sectors (flags p.<write>.<sector>) reached the medium. An epoch ends with a Sync.
type crashDev struct {
	vpdev.MemDev
	dev   *vpdev.MemDev
	n0    int
	k     int
	epoch []int
}

func newCrashDev(dev *vpdev.MemDev, n0, k int) *crashDev {
	c := &crashDev{dev: dev, n0: n0, k: k}
	c.Size = dev.Size
	for j := range dev.Log {
		e := 0
		for _, s := range dev.Syncs {
			if s <= j {
				e++
			}
		}
		c.epoch = append(c.epoch, e)
	}
	return c
}

func (c *crashDev) byteAt(o int64) byte {
	v := c.dev.ByteAtN(o, c.n0)
	base := c.epoch[c.n0]
	for j := c.n0; j < len(c.dev.Log); j++ {
		w := &c.dev.Log[j]
		e := c.epoch[j] - base
		if e > c.k || len(w.Data) == 0 {
			continue
		}
		if vp.IsConst(o) {
			idx := o - w.Off
			if idx < 0 || idx >= int64(len(w.Data)) {
				continue
			}
			if e < c.k {
				v = w.Data[idx]
			} else {
				v = vp.IteU8(vp.Bool(fmt.Sprintf("p.%d.%d", j-c.n0, o/512)), w.Data[idx], v)
			}
			continue
		}
		// sector by sector (the offsets of the writes are concrete, o is symbolic here)
		for lo := w.Off - w.Off%512; lo < w.Off+int64(len(w.Data)); lo += 512 {
			a, b := lo, lo+512
			if a < w.Off {
				a = w.Off
			}
			if b > w.Off+int64(len(w.Data)) {
				b = w.Off + int64(len(w.Data))
			}
			in := uint64(o-a) < uint64(b-a)
			applied := true
			if e == c.k {
				applied = vp.Bool(fmt.Sprintf("p.%d.%d", j-c.n0, lo/512))
			}
			idx := vp.IteI64(in, o-w.Off, 0)
			v = vp.IteU8(in && applied, w.Data[idx], v)
		}
	}
	return v
}

func (c *crashDev) ReadAt(p []byte, off int64) (int, error) {
	if off >= c.Size {
		return 0, io.EOF
	}
	n := len(p)
	if int64(n) > c.Size-off {
		n = int(c.Size - off)
	}
	for i := 0; i < n; i++ {
		p[i] = c.byteAt(off + int64(i))
	}
	if n < len(p) {
		return n, io.EOF
	}
	return n, nil
}

func (c *crashDev) Seek(offset int64, whence int) (int64, error) {
	if whence == io.SeekEnd {
		return c.Size + offset, nil
	}
	return offset, nil
}

type c09Part struct {
	idx        int
	start, end uint64
	name, guid string
	typ        Type
}

func c09Table(guid string, parts []c09Part) *Table {
	t := &Table{LogicalSectorSize: 512, PhysicalSectorSize: 512, GUID: guid, ProtectiveMBR: true}
	for _, p := range parts {
		t.Partitions = append(t.Partitions, &Partition{Index: p.idx, Start: p.start, End: p.end, Name: p.name, GUID: p.guid, Type: p.typ})
	}
	return t
}

// same reports whether the table read back is exactly the given one.
func c09Same(t *Table, guid string, parts []c09Part) bool {
	if t.GUID != guid {
		return false
	}
	if len(t.Partitions) != len(parts) {
		return false
	}
	for i, p := range parts {
		q := t.Partitions[i]
		if q.Index != p.idx || q.Start != p.start || q.End != p.end {
			return false
		}
		if q.GUID != p.guid || q.Type != p.typ {
			return false
		}
		if q.Name != p.name {
			return false
		}
	}
	return true
}

const (
	c09G1 = "43E51892-3273-42F7-BCDA-B43B80CDFC48"
	c09G2 = "7D0E2C11-9B4A-4F61-8E37-0C5A1B2D3E4F"
	c09P1 = "5CA3360B-5DE6-4FCF-B4CE-419CEE433B51"
	c09P2 = "0B1C2D3E-4F50-6172-8394-A5B6C7D8E9FA"
	c09P3 = "1A2B3C4D-5E6F-4A0B-9C8D-7E6F5A4B3C2D"
)

// c09Crash: repartition old -> new on a 64 KiB disk, power lost in epoch k.
func c09Crash(pair, k int) {
	size := int64(128 * 512)
	var oldP, newP []c09Part
	oldG, newG := c09G1, c09G1
	switch pair {
	case 0: // grow: one more partition
		oldP = []c09Part{{1, 34, 50, "boot", c09P1, EFISystemPartition}}
		newP = []c09Part{{1, 34, 50, "boot", c09P1, EFISystemPartition}, {2, 51, 90, "root", c09P2, LinuxFilesystem}}
	case 1: // geometry and names change, other disk GUID
		oldP = []c09Part{{1, 34, 50, "boot", c09P1, EFISystemPartition}, {2, 51, 90, "root", c09P2, LinuxFilesystem}}
		newP = []c09Part{{1, 34, 60, "esp", c09P1, EFISystemPartition}, {2, 61, 93, "data", c09P3, LinuxFilesystem}}
		newG = c09G2
	case 2: // shrink: partitions removed
		oldP = []c09Part{{1, 34, 50, "boot", c09P1, EFISystemPartition}, {2, 51, 90, "root", c09P2, LinuxFilesystem}}
		newP = []c09Part{{2, 51, 90, "root", c09P2, LinuxFilesystem}}
	default: // first ever write on a blank disk
		newP = []c09Part{{1, 34, 50, "boot", c09P1, EFISystemPartition}}
	}
	dev := vpdev.NewMemDev("disk", size)
	if oldP != nil {
		err := c09Table(oldG, oldP).Write(dev, size)
		vp.Assert(err == nil, "old table written")
	}
	n0 := len(dev.Log)
	dev.Syncs = nil
	err := c09Table(newG, newP).Write(dev, size)
	vp.Assert(err == nil, "new table written")
	epochs := len(dev.Syncs)
	vp.Observe("epochs", uint64(epochs))
	if k > epochs {
		return
	}
	vp.ExactCRC(true)
	vp.Unwind(140)
	cd := newCrashDev(dev, n0, k)
	t, err := Read(cd, 512, 512)
	if oldP == nil {
		// blank disk: an error (no table yet) or exactly the new table
		if err == nil {
			vp.Assert(c09Same(t, newG, newP), "after a crash of the first write: no table or exactly the new one")
			vp.Cover("blank: new table readable")
		} else {
			vp.Cover("blank: no table yet")
		}
		if k == epochs {
			vp.Assert(err == nil, "a completed Write reads back")
		}
		return
	}
	vp.Assert(err == nil, "reading the partition table after a crash succeeds")
	isOld := c09Same(t, oldG, oldP)
	isNew := c09Same(t, newG, newP)
	vp.Assert(isOld || isNew, "after a crash exactly the old or exactly the new table is read, never a mixture")
	if k == epochs {
		vp.Assert(isNew, "a completed Write reads back as the new table")
		vp.Assert(!t.RecoveredFromBackup, "a completed Write reads back from the primary copy")
	}
	vp.Cover("crash image read")
}

func VP_C09_grow_k0()    { c09Crash(0, 0) }
func VP_C09_grow_k1()    { c09Crash(0, 1) }
func VP_C09_grow_k2()    { c09Crash(0, 2) }
func VP_C09_grow_k3()    { c09Crash(0, 3) }
func VP_C09_grow_k4()    { c09Crash(0, 4) }
func VP_C09_grow_k5()    { c09Crash(0, 5) }
func VP_C09_change_k0()  { c09Crash(1, 0) }
func VP_C09_change_k1()  { c09Crash(1, 1) }
func VP_C09_change_k2()  { c09Crash(1, 2) }
func VP_C09_change_k3()  { c09Crash(1, 3) }
func VP_C09_change_k4()  { c09Crash(1, 4) }
func VP_C09_change_k5()  { c09Crash(1, 5) }
func VP_C09_shrink_k1()  { c09Crash(2, 1) }
func VP_C09_shrink_k3()  { c09Crash(2, 3) }
func VP_C09_blank_k1()   { c09Crash(3, 1) }
func VP_C09_blank_k2()   { c09Crash(3, 2) }
func VP_C09_blank_k3()   { c09Crash(3, 3) }
func VP_C09_blank_k4()   { c09Crash(3, 4) }
func VP_C09_blank_k5()   { c09Crash(3, 5) }

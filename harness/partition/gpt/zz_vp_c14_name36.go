package gpt

import (
	"github.com/diskfs/go-diskfs/internal/vp"
	"github.com/diskfs/go-diskfs/internal/vp/vpdev"
)

// Names that fill the 72-byte name field of a GPT entry completely (36 UTF-16 code units, no
// terminating zero unit): 36 ASCII characters / 34 BMP characters and one surrogate pair.
const (
	c14Name36A = "abcdefghijklmnopqrstuvwxyz0123456789"
	c14Name36B = "ZYXWVUTSRQPONMLKJIHGFEDCBA9876543210"
	c14Name36S = "Größe-日本語-ディスク-0123456789-abcdefgh\U0001F4BE"
)

// c14RewriteReadNames: Write(T) where the partition names are exactly 36 UTF-16 units long (start/end
// LBAs and attribute words arbitrary); Read from the bytes alone gives the names back unshortened;
// Write(result of Read) onto the same disk: the second write sequence is byte-identical to the first
// (both arrays, both headers, CRC words, protective MBR) and the regions written by one Write do not
// overlap, hence no byte of the disk changes.
func c14RewriteReadNames(diskSize int64, lss int, pmbr bool, i1, i2 int, name1, name2 string, smask, emask uint64) {
	sectors := uint64(diskSize) / uint64(lss)
	arraySectors := uint64(128*128) / uint64(lss)
	first, last := 2+arraySectors, sectors-2-arraySectors
	s1, e1 := c14Shaped("p1", first, last, smask, emask)
	s2, e2 := c14Shaped("p2", first, last, smask, emask)
	a1, a2 := vp.U64("p1.attr"), vp.U64("p2.attr")
	p1 := &Partition{Index: i1, Start: s1, End: e1, Type: Type(c14TypeA), Name: name1, GUID: c14GuidA, Attributes: a1}
	p2 := &Partition{Index: i2, Start: s2, End: e2, Type: LinuxFilesystem, Name: name2, GUID: c14GuidB, Attributes: a2}
	t := &Table{Partitions: []*Partition{p1, p2}, LogicalSectorSize: lss, PhysicalSectorSize: lss, GUID: c14DiskG, ProtectiveMBR: pmbr}
	dev := vpdev.NewMemDev("disk", diskSize)
	err := t.Write(dev, diskSize)
	vp.Assert(err == nil, "Write accepts names of exactly 36 UTF-16 units")
	n1 := len(dev.Log)
	for i := 0; i < n1; i++ {
		vp.Assert(dev.Log[i].Off >= 0, "write inside the disk (start)")
		vp.Assert(dev.Log[i].Off+int64(dev.Log[i].Len) <= diskSize, "write inside the disk (end)")
		for j := 0; j < i; j++ {
			a, b := dev.Log[i], dev.Log[j]
			disjoint := a.Off+int64(a.Len) <= b.Off || b.Off+int64(b.Len) <= a.Off
			vp.Assert(disjoint, "the regions of one Write do not overlap")
		}
	}
	// the name fields are full: the 36th code unit is stored, the next entry starts right after it
	pa := int64(2 * lss)
	for _, ix := range []int{i1, i2} {
		o := pa + int64(ix-1)*128
		vp.Assert(dev.ByteAt(o+126) != 0 || dev.ByteAt(o+127) != 0, "the 36th code unit of the name is stored (no terminator in the field)")
	}
	t2, err := Read(dev, lss, lss)
	vp.Assert(err == nil, "Read accepts what Write produced")
	vp.Assert(!t2.RecoveredFromBackup, "read from the primary copy")
	vp.Assert(len(t2.Partitions) == 2, "two partitions read back")
	q1, q2 := t2.Partitions[0], t2.Partitions[1] // slot order
	if i2 < i1 {
		q1, q2 = q2, q1
	}
	vp.Assert(q1.Name == name1, "36-unit ASCII name read back unshortened")
	vp.Assert(q2.Name == name2, "36-unit name ending in a surrogate pair read back unshortened")
	vp.Assert(q1.Start == s1, "p1 start read back")
	vp.Assert(q1.End == e1, "p1 end read back")
	vp.Assert(q1.Size == (e1-s1+1)*uint64(lss), "p1 size read back")
	vp.Assert(q1.Attributes == a1, "p1 attributes read back")
	vp.Assert(q2.Start == s2, "p2 start read back")
	vp.Assert(q2.End == e2, "p2 end read back")
	vp.Assert(q2.Size == (e2-s2+1)*uint64(lss), "p2 size read back")
	vp.Assert(q2.Attributes == a2, "p2 attributes read back")
	// (replace the fields by the equal original expressions: the second Write then works on syntactically
	// the same values and the CRC words can be compared)
	q1.Start, q1.End, q1.Size, q1.Attributes = s1, e1, (e1-s1+1)*uint64(lss), a1
	q2.Start, q2.End, q2.Size, q2.Attributes = s2, e2, (e2-s2+1)*uint64(lss), a2
	err = t2.Write(dev, diskSize)
	vp.Assert(err == nil, "a table that was read can be written (names of 36 units included)")
	vp.Assert(len(dev.Log) == 2*n1, "the rewrite issues the same number of writes")
	for i := 0; i < n1; i++ {
		ra, rb := dev.Log[i], dev.Log[n1+i]
		vp.Assert(ra.Off == rb.Off, "rewrite: same offset")
		vp.Assert(len(ra.Data) == len(rb.Data), "rewrite: same length")
		var diff byte
		for j := range ra.Data {
			diff |= ra.Data[j] ^ rb.Data[j]
		}
		vp.Assert(diff == 0, "rewriting a table that was read from disk changes nothing")
	}
	vp.Assert(vp.NondetSources() == 0, "Write, Read, Write consult no clock, random source or map order")
	vp.Cover("rewritten")
}

func VP_C14_gpt_reread_rewrite_name36() {
	c14RewriteReadNames(1<<20, 512, true, 1, 2, c14Name36A, c14Name36S, 15, 0xffff)
}
func VP_C14_gpt_reread_rewrite_name36_last_slots() {
	c14RewriteReadNames(70*512, 512, false, 128, 127, c14Name36S, c14Name36A, 1, 1)
}
func VP_C14_gpt_reread_rewrite_name36_4096() {
	c14RewriteReadNames(1<<30, 4096, true, 2, 77, c14Name36A, c14Name36B, 15, 0xfffff)
}

package gpt

import (
	"hash/crc32"
	"io"

	"github.com/diskfs/go-diskfs/internal/vp"
	"github.com/diskfs/go-diskfs/internal/vp/vpdev"
)

// C09 on longer histories and odd geometries (helpers of zz_vp_c09.go: crashDev, c09Table, c09Same).

var (
	c09hA = []c09Part{{1, 34, 50, "boot", c09P1, EFISystemPartition}, {2, 51, 90, "root", c09P2, LinuxFilesystem}}
	c09hB = []c09Part{{1, 34, 60, "esp", c09P1, EFISystemPartition}, {2, 61, 93, "data", c09P3, LinuxFilesystem}}
	// C = B changed by the caller: partition 2 shrunk and renamed, partition 5 added
	c09hC = []c09Part{{1, 34, 60, "esp", c09P1, EFISystemPartition}, {2, 61, 80, "var", c09P3, LinuxFilesystem}, {5, 81, 94, "home", c09P2, LinuxFilesystem}}
)

// c09CrashRead: the writes dev.Log[n0:] (one Table.Write, Syncs reset before it) are cut by a power
// loss in epoch k; gpt.Read of the crash image must succeed and give exactly the old or the new table.
func c09CrashRead(dev *vpdev.MemDev, n0, k int, oldG string, oldP []c09Part, newG string, newP []c09Part) {
	epochs := len(dev.Syncs)
	vp.Observe("epochs", uint64(epochs))
	vp.Assert(epochs == 5, "protective MBR, two arrays, two headers: each followed by a Sync")
	if k > epochs {
		return
	}
	vp.ExactCRC(true)
	vp.Unwind(140)
	cd := newCrashDev(dev, n0, k)
	t, err := Read(cd, 512, 512)
	vp.Assert(err == nil, "reading the partition table after a crash succeeds")
	isOld := c09Same(t, oldG, oldP)
	isNew := c09Same(t, newG, newP)
	vp.Assert(isOld || isNew, "after a crash exactly the old or exactly the new table is read, never a mixture")
	if k == epochs {
		vp.Assert(isNew, "a completed Write reads back as the new table")
		vp.Assert(!t.RecoveredFromBackup, "a completed Write reads back from the primary copy")
	}
	if k <= 2 {
		vp.Assert(isOld, "while only the backup copy is being written the (intact) primary copy still gives the old table")
	}
	vp.Cover("crash image read")
}

// c09Unaligned: repartition A -> B (other geometry, names, disk GUID) on an image of 64 KiB + 200
// bytes: 128 whole sectors and a tail. Write puts the backup header into the last WHOLE sector
// (LBA floor(size/512)-1 = 127); Read's fallback must look there.
func c09Unaligned(k int) {
	size := int64(128*512 + 200)
	dev := vpdev.NewMemDev("disk", size)
	err := c09Table(c09G1, c09hA).Write(dev, size)
	vp.Assert(err == nil, "old table written")
	n0 := len(dev.Log)
	dev.Syncs = nil
	err = c09Table(c09G2, c09hB).Write(dev, size)
	vp.Assert(err == nil, "new table written")
	// where Write put the backup (independent of Read): last whole sector, array right before it
	vp.Assert(le64(dev, 127*512) == 0x5452415020494645, "backup header in the last whole sector (LBA 127)")
	vp.Assert(le64(dev, 127*512+24) == 127, "backup header: MyLBA = 127")
	vp.Assert(le64(dev, 127*512+72) == 95, "backup array at LBA 95")
	vp.Assert(le64(dev, 512+32) == 127, "primary header: AlternateLBA = 127")
	for i := range dev.Log {
		vp.Assert(dev.Log[i].Off+int64(dev.Log[i].Len) <= 128*512, "no write into the partial sector at the end of the image")
	}
	c09CrashRead(dev, n0, k, c09G1, c09hA, c09G2, c09hB)
}

func VP_C09_change_unaligned_k0() { c09Unaligned(0) }
func VP_C09_change_unaligned_k1() { c09Unaligned(1) }
func VP_C09_change_unaligned_k2() { c09Unaligned(2) }
func VP_C09_change_unaligned_k3() { c09Unaligned(3) }
func VP_C09_change_unaligned_k4() { c09Unaligned(4) }
func VP_C09_change_unaligned_k5() { c09Unaligned(5) }

// c09Flat is a device kept as one flat byte slice (cheap to read for long concrete histories); its
// writes are logged like those of a MemDev.
type c09Flat struct {
	vpdev.MemDev
	img []byte
}

func newC09Flat(size int64) *c09Flat {
	d := &c09Flat{img: make([]byte, size)}
	d.Name, d.Size = "disk", size
	return d
}

func (d *c09Flat) ReadAt(p []byte, off int64) (int, error) {
	if off < 0 || off >= d.Size {
		return 0, io.EOF
	}
	n := copy(p, d.img[off:])
	if n < len(p) {
		return n, io.EOF
	}
	return n, nil
}

func (d *c09Flat) WriteAt(p []byte, off int64) (int, error) {
	if off < 0 || off+int64(len(p)) > d.Size {
		return 0, io.ErrShortWrite
	}
	copy(d.img[off:], p)
	cp := make([]byte, len(p))
	copy(cp, p)
	d.Log = append(d.Log, vpdev.WRec{Off: off, Len: len(p), Data: cp})
	return len(p), nil
}

// c09Recovered builds the history
//
//	disk holds A;  Write(B) is cut during the primary entry-array write (only the sectors `applied`
//	of that write reached the disk; protective MBR, backup array, backup header are durable);
//	gpt.Read -> table recovered from the backup copy
//
// and returns the crash image (a device holding exactly those bytes) and the table Read gave.
func c09Recovered(size int64, applied []int) (*c09Flat, *Table) {
	dev := newC09Flat(size)
	err := c09Table(c09G1, c09hA).Write(dev, size)
	vp.Assert(err == nil, "A written")
	n0 := len(dev.Log)
	err = c09Table(c09G2, c09hB).Write(dev, size)
	vp.Assert(err == nil, "B written")
	vp.Assert(len(dev.Log) == n0+5, "Write = protective MBR, backup array, backup header, primary array, primary header")
	pa := dev.Log[n0+3]
	vp.Assert(pa.Off == 2*512 && pa.Len == 128*128, "4th write of Write(B) is the primary entry array")
	img := newC09Flat(size)
	for _, w := range dev.Log[:n0+3] {
		_, _ = img.WriteAt(w.Data, w.Off)
	}
	for _, s := range applied {
		_, _ = img.WriteAt(pa.Data[s*512:(s+1)*512], pa.Off+int64(s)*512)
	}
	t, err := Read(img, 512, 512)
	vp.Assert(err == nil, "the crash image is readable")
	vp.Assert(t.RecoveredFromBackup, "primary array torn: the table comes from the backup copy")
	vp.Assert(c09Same(t, c09G2, c09hB), "the backup copy holds B")
	return img, t
}

// c09Region returns the bytes the writes Log[n1:] left in [off, off+n): exactly one of them covers
// exactly that region (the regions of one Write are asserted to be disjoint by the caller).
func c09Region(d *vpdev.MemDev, n1 int, off int64, n int) []byte {
	var data []byte
	found := 0
	for i := n1; i < len(d.Log); i++ {
		if d.Log[i].Off == off && d.Log[i].Len == n {
			data = d.Log[i].Data
			found++
		}
	}
	vp.Assert(found == 1, "the Write stores this structure with one WriteAt at its regular place")
	if found != 1 {
		return make([]byte, n)
	}
	return data
}

// c09HeaderOK is the header CRC rule of UEFI 5.3.2 applied to header bytes (independent of the library).
func c09HeaderOK(hdr []byte) bool {
	h := make([]byte, 92)
	copy(h, hdr[:92])
	stored := uint32(h[16]) | uint32(h[17])<<8 | uint32(h[18])<<16 | uint32(h[19])<<24
	h[16], h[17], h[18], h[19] = 0, 0, 0, 0
	return crc32.ChecksumIEEE(h) == stored
}

func c09u32(b []byte, o int) uint32 {
	return uint32(b[o]) | uint32(b[o+1])<<8 | uint32(b[o+2])<<16 | uint32(b[o+3])<<24
}
func c09u64(b []byte, o int) uint64 { return uint64(c09u32(b, o)) | uint64(c09u32(b, o+4))<<32 }

// c09RewriteLayout: the table recovered from the BACKUP copy is written back (the repair the
// documentation of RecoveredFromBackup asks for): the result is a regular GPT - primary header at
// LBA 1 pointing at the primary array at LBA 2, backup header in the last sector pointing at the
// backup array right before it, both arrays holding B, all four CRCs valid, and Read takes it from
// the primary copy again.
func c09RewriteLayout(size int64, applied []int) {
	last := uint64(size/512) - 1
	img, t := c09Recovered(size, applied)
	n1 := len(img.Log)
	err := t.Write(img, size)
	vp.Assert(err == nil, "the recovered table can be written back")
	vp.Assert(len(img.Log) == n1+5, "the repair writes protective MBR, two arrays, two headers")
	// write regions of the repair: where a regular GPT lives, pairwise disjoint
	for i := n1; i < len(img.Log); i++ {
		w := img.Log[i]
		a, b := w.Off, w.Off+int64(w.Len)
		inMBR := a >= 446 && b <= 512
		inPrimary := a >= 512 && b <= 34*512
		inBackup := a >= int64(last-32)*512 && b <= int64(last+1)*512
		vp.Assert(inMBR || inPrimary || inBackup, "repair: every write lies in the MBR entry area, the primary GPT or the backup GPT")
		for j := n1; j < i; j++ {
			o := img.Log[j]
			vp.Assert(b <= o.Off || o.Off+int64(o.Len) <= a, "repair: the regions of one Write do not overlap")
		}
	}
	// the bytes now on the disk at the four regular places
	h := c09Region(&img.MemDev, n1, 512, 512)
	pa := c09Region(&img.MemDev, n1, 2*512, 128*128)
	ba := c09Region(&img.MemDev, n1, int64(last-32)*512, 128*128)
	bh := c09Region(&img.MemDev, n1, int64(last)*512, 512)
	vp.Assert(c09u64(h, 0) == 0x5452415020494645, "primary header signature")
	vp.Assert(c09u64(h, 24) == 1, "primary header: MyLBA = 1")
	vp.Assert(c09u64(h, 32) == last, "primary header: AlternateLBA = last sector")
	vp.Assert(c09u64(h, 40) == 34, "primary header: first usable LBA")
	vp.Assert(c09u64(h, 48) == last-33, "primary header: last usable LBA")
	vp.Assert(c09u64(h, 72) == 2, "primary header points at the PRIMARY array (LBA 2)")
	vp.Assert(c09u32(h, 80) == 128 && c09u32(h, 84) == 128, "primary header: 128 entries of 128 bytes")
	vp.Assert(c09u64(bh, 0) == 0x5452415020494645, "backup header signature")
	vp.Assert(c09u64(bh, 24) == last, "backup header: MyLBA = last sector")
	vp.Assert(c09u64(bh, 32) == 1, "backup header: AlternateLBA = 1")
	vp.Assert(c09u64(bh, 40) == 34, "backup header: first usable LBA")
	vp.Assert(c09u64(bh, 48) == last-33, "backup header: last usable LBA")
	vp.Assert(c09u64(bh, 72) == last-32, "backup header points at the BACKUP array (right before it)")
	vp.Assert(c09HeaderOK(h), "primary header CRC valid")
	vp.Assert(c09HeaderOK(bh), "backup header CRC valid")
	vp.Assert(crc32.ChecksumIEEE(pa) == c09u32(h, 88), "primary array matches the CRC in the primary header")
	vp.Assert(crc32.ChecksumIEEE(ba) == c09u32(bh, 88), "backup array matches the CRC in the backup header")
	// both arrays hold B: byte for byte what a fresh Write(B) produces; so do both headers
	ref := newC09Flat(size)
	err = c09Table(c09G2, c09hB).Write(ref, size)
	vp.Assert(err == nil, "reference written")
	rpa := c09Region(&ref.MemDev, 0, 2*512, 128*128)
	rh := c09Region(&ref.MemDev, 0, 512, 512)
	rbh := c09Region(&ref.MemDev, 0, int64(last)*512, 512)
	var diff byte
	for i := range rpa {
		diff |= pa[i] ^ rpa[i]
		diff |= ba[i] ^ rpa[i]
	}
	vp.Assert(diff == 0, "after the repair both arrays hold exactly the entries of B")
	for i := range rh {
		diff |= h[i] ^ rh[i]
		diff |= bh[i] ^ rbh[i]
	}
	vp.Assert(diff == 0, "after the repair both headers are those of a regular Write(B)")
	t2, err := Read(img, 512, 512)
	vp.Assert(err == nil, "the repaired disk is readable")
	vp.Assert(!t2.RecoveredFromBackup, "the repaired disk reads from the primary copy")
	vp.Assert(c09Same(t2, c09G2, c09hB), "the repaired disk holds B")
	vp.Assert(t2.ProtectiveMBR, "protective MBR in place")
	vp.Cover("recovered table written back")
}

// torn primary array: only its first sector arrived / two of its sectors / all of it (but not the header)
func VP_C09_recovered_rewrite_layout() {
	c09RewriteLayout(128*512, []int{0})
	all := []int{}
	for s := 0; s < 32; s++ {
		all = append(all, s)
	}
	c09RewriteLayout(128*512, all)
}
func VP_C09_recovered_rewrite_layout_unaligned() { c09RewriteLayout(128*512+200, []int{0, 5}) }

// c09RecoveredThenChange: ... the caller repairs the disk by writing the recovered table back, then
// changes the SAME table object (the one Read returned from the backup copy) into C and writes it;
// this Write is cut in epoch k at any subset of sectors: Read gives exactly B or exactly C.
func c09RecoveredThenChange(k int, reread bool) {
	size := int64(128 * 512)
	img, t := c09Recovered(size, []int{0})
	err := t.Write(img, size)
	vp.Assert(err == nil, "the recovered table can be written back")
	if reread {
		// the caller re-reads the repaired disk and goes on with that table
		t, err = Read(img, 512, 512)
		vp.Assert(err == nil, "the repaired disk is readable")
		vp.Assert(!t.RecoveredFromBackup, "the repaired disk reads from the primary copy")
	}
	// B -> C on the table object at hand
	t.Partitions[1].End = 80
	t.Partitions[1].Size = 0
	t.Partitions[1].Name = "var"
	t.Partitions = append(t.Partitions, &Partition{Index: 5, Start: 81, End: 94, Name: "home", GUID: c09P2, Type: LinuxFilesystem})
	// the repaired disk as the initial content of a logging device; Write(C) on it
	base := vpdev.NewMemDev("disk", size)
	base.Image = append([]byte(nil), img.img...)
	err = t.Write(base, size)
	vp.Assert(err == nil, "C written")
	c09CrashRead(base, 0, k, c09G2, c09hB, c09G2, c09hC)
}

func VP_C09_recovered_then_change_k0()        { c09RecoveredThenChange(0, false) }
func VP_C09_recovered_then_change_k1()        { c09RecoveredThenChange(1, false) }
func VP_C09_recovered_then_change_k2()        { c09RecoveredThenChange(2, false) }
func VP_C09_recovered_then_change_k3()        { c09RecoveredThenChange(3, false) }
func VP_C09_recovered_then_change_k4()        { c09RecoveredThenChange(4, false) }
func VP_C09_recovered_then_change_k5()        { c09RecoveredThenChange(5, false) }
func VP_C09_recovered_then_change_reread_k3() { c09RecoveredThenChange(3, true) }
func VP_C09_recovered_then_change_reread_k4() { c09RecoveredThenChange(4, true) }

package gpt

import (
	"github.com/diskfs/go-diskfs/internal/vp"
	"github.com/diskfs/go-diskfs/internal/vp/vpdev"
)

const (
	c14TypeA = "C12A7328-F81F-11D2-BA4B-00A0C93EC93B" // EFI system
	c14GuidA = "5CA3360B-5DE6-4FCF-B4CE-419CEE433B51"
	c14GuidB = "0b1c2d3e-4f50-6172-8394-a5b6c7d8e9fa" // lower case on purpose: the spelling must not matter
	c14DiskG = "43E51892-3273-42F7-BCDA-B43B80CDFC48"
)

// c14Assume restricts the solver variables p1.*, p2.* to a table Write accepts on a disk of
// `sectors` logical sectors (p1 spelled start+end, p2 spelled start+size; attributes arbitrary).
func c14Assume(sectors uint64, lss int) {
	arraySectors := uint64(128*128) / uint64(lss)
	firstUsable := 2 + arraySectors
	lastUsable := sectors - 2 - arraySectors
	s1, e1 := vp.U64("p1.start"), vp.U64("p1.end")
	s2, n2 := vp.U64("p2.start"), vp.U64("p2.sectors")
	vp.Assume(s1 >= firstUsable)
	vp.Assume(e1 >= s1)
	vp.Assume(e1 <= lastUsable)
	vp.Assume(s2 >= firstUsable)
	vp.Assume(n2 >= 1)
	vp.Assume(n2 <= lastUsable)
	vp.Assume(s2 <= lastUsable-n2+1)
}

// c14Table builds a fresh Table object from the solver variables (same names = same values: two
// calls give two independent objects describing the SAME table, all GUIDs given).
func c14Table(lss int, pmbr bool, i1, i2 int) *Table {
	p1 := &Partition{Index: i1, Start: vp.U64("p1.start"), End: vp.U64("p1.end"), Type: Type(c14TypeA),
		Name: "EFI System", GUID: c14GuidA, Attributes: vp.U64("p1.attr")}
	p2 := &Partition{Index: i2, Start: vp.U64("p2.start"), Size: vp.U64("p2.sectors") * uint64(lss), Type: LinuxFilesystem,
		Name: "rööt-\U0001F4BE", GUID: c14GuidB, Attributes: vp.U64("p2.attr")}
	return &Table{Partitions: []*Partition{p1, p2}, LogicalSectorSize: lss, PhysicalSectorSize: lss, GUID: c14DiskG, ProtectiveMBR: pmbr}
}

// c14SameLog asserts that two devices received the same sequence of writes (offset, length, bytes).
// With skipCRC the two CRC words of the header sectors (records of one sector that start with the
// GPT signature) are not compared: they are functions of the bytes that are compared.
func c14SameLog(a, b *vpdev.MemDev, lss int, skipCRC bool) {
	vp.Assert(len(a.Log) == len(b.Log), "both executions issue the same number of writes")
	for i := range a.Log {
		ra, rb := a.Log[i], b.Log[i]
		vp.Assert(ra.Off == rb.Off, "same write offset in both executions")
		vp.Assert(len(ra.Data) == len(rb.Data), "same write length in both executions")
		hdr := skipCRC && len(ra.Data) == lss && ra.Data[0] == 0x45 && ra.Data[1] == 0x46
		var diff byte
		for j := range ra.Data {
			if hdr && ((j >= 16 && j < 20) || (j >= 88 && j < 92)) {
				continue
			}
			diff |= ra.Data[j] ^ rb.Data[j]
		}
		vp.Assert(diff == 0, "same bytes written in both executions")
	}
}

// c14WriteTwice: the same table (GUIDs given; LBAs, sizes, attributes and the DISK SIZE arbitrary)
// is written in two independent executions onto two disks: no clock / random source / map order is
// consulted and the two write sequences are identical byte for byte.
func c14WriteTwice(lss int, pmbr bool, i1, i2 int) {
	sectors := vp.U64("sectors")
	vp.Assume(sectors >= 6+2*uint64(128*128/lss))
	vp.Assume(sectors <= 1<<50)
	c14Assume(sectors, lss)
	size := int64(sectors) * int64(lss)
	t1 := c14Table(lss, pmbr, i1, i2)
	t2 := c14Table(lss, pmbr, i1, i2)
	d1 := vpdev.NewMemDev("diskA", -1)
	d2 := vpdev.NewMemDev("diskB", -1)
	err1 := t1.Write(d1, size)
	err2 := t2.Write(d2, size)
	vp.Assert(err1 == nil, "first execution accepted")
	vp.Assert(err2 == nil, "second execution accepted")
	want := 4
	if pmbr {
		want = 5
	}
	vp.Assert(len(d1.Log) == want, "protective MBR (if any), two arrays, two headers")
	c14SameLog(d1, d2, lss, false)
	// the same Table OBJECT written again (Write filled in End/Size of its partitions the first time):
	// same offsets and same bytes again. (The CRC words are not compared here: they are the same function
	// of the compared bytes, but the filled-in fields make the two CRC terms syntactically different and
	// the comparison of two 2048-step CRC chains is beyond the solvers.)
	d3 := vpdev.NewMemDev("diskC", -1)
	err3 := t1.Write(d3, size)
	vp.Assert(err3 == nil, "writing the same table object a second time is accepted")
	c14SameLog(d1, d3, lss, true)
	vp.Assert(vp.NondetSources() == 0, "gpt.Table.Write with all GUIDs given consults no clock, random source or map order")
	vp.Cover("written twice")
}

func VP_C14_gpt_write_twice_512()       { c14WriteTwice(512, true, 1, 2) }
func VP_C14_gpt_write_twice_512_nombr() { c14WriteTwice(512, false, 128, 3) }
func VP_C14_gpt_write_twice_4096()      { c14WriteTwice(4096, true, 7, 2) }

// c14Shaped returns an arbitrary partition range inside [first, last]: the start is any of the first
// smask+1 usable LBAs, the end any LBA from first+smask on (the shape keeps start <= end visible to the
// engine without a solver call, so that Write's consistency switch does not fork).
func c14Shaped(pfx string, first, last, smask, emask uint64) (s, e uint64) {
	s = first + vp.U64(pfx+".startoff")&smask
	e = first + smask + vp.U64(pfx+".endoff")&emask
	vp.Assume(e <= last)
	return s, e
}

// c14RewriteRead: Write(T) on a disk of the given size (start/end LBAs and attribute words
// arbitrary); Read from the bytes alone; Write(result of Read) onto the same disk: the second write
// sequence is byte-identical to the first (CRC words included) and the regions written by one
// Write do not overlap, hence no byte of the disk changes.
func c14RewriteRead(diskSize int64, lss int, pmbr bool, i1, i2 int, smask, emask uint64) {
	sectors := uint64(diskSize) / uint64(lss)
	arraySectors := uint64(128*128) / uint64(lss)
	first, last := 2+arraySectors, sectors-2-arraySectors
	s1, e1 := c14Shaped("p1", first, last, smask, emask)
	s2, e2 := c14Shaped("p2", first, last, smask, emask)
	a1, a2 := vp.U64("p1.attr"), vp.U64("p2.attr")
	p1 := &Partition{Index: i1, Start: s1, End: e1, Type: Type(c14TypeA), Name: "EFI System", GUID: c14GuidA, Attributes: a1}
	p2 := &Partition{Index: i2, Start: s2, End: e2, Type: LinuxFilesystem, Name: "rööt-\U0001F4BE", GUID: c14GuidB, Attributes: a2}
	t := &Table{Partitions: []*Partition{p1, p2}, LogicalSectorSize: lss, PhysicalSectorSize: lss, GUID: c14DiskG, ProtectiveMBR: pmbr}
	dev := vpdev.NewMemDev("disk", diskSize)
	err := t.Write(dev, diskSize)
	vp.Assert(err == nil, "Write accepts the table")
	n1 := len(dev.Log)
	// regions of one Write are pairwise disjoint and inside the disk (offsets are concrete here)
	for i := 0; i < n1; i++ {
		vp.Assert(dev.Log[i].Off >= 0, "write inside the disk (start)")
		vp.Assert(dev.Log[i].Off+int64(dev.Log[i].Len) <= diskSize, "write inside the disk (end)")
		for j := 0; j < i; j++ {
			a, b := dev.Log[i], dev.Log[j]
			disjoint := a.Off+int64(a.Len) <= b.Off || b.Off+int64(b.Len) <= a.Off
			vp.Assert(disjoint, "the regions of one Write do not overlap")
		}
	}
	t2, err := Read(dev, lss, lss)
	vp.Assert(err == nil, "Read accepts what Write produced")
	vp.Assert(!t2.RecoveredFromBackup, "read from the primary copy")
	vp.Assert(len(t2.Partitions) == 2, "two partitions read back")
	q1, q2 := t2.Partitions[0], t2.Partitions[1] // slot order
	if i2 < i1 {
		q1, q2 = q2, q1
	}
	// what was read is what was written; after each check the field is replaced by the (equal)
	// original expression so that the second Write works on syntactically the same values
	vp.Assert(q1.Start == s1, "p1 start read back")
	vp.Assert(q1.End == e1, "p1 end read back")
	vp.Assert(q1.Size == (e1-s1+1)*uint64(lss), "p1 size read back")
	vp.Assert(q1.Attributes == a1, "p1 attributes read back")
	vp.Assert(q2.Start == s2, "p2 start read back")
	vp.Assert(q2.End == e2, "p2 end read back")
	vp.Assert(q2.Size == (e2-s2+1)*uint64(lss), "p2 size read back")
	vp.Assert(q2.Attributes == a2, "p2 attributes read back")
	q1.Start, q1.End, q1.Size, q1.Attributes = s1, e1, (e1-s1+1)*uint64(lss), a1
	q2.Start, q2.End, q2.Size, q2.Attributes = s2, e2, (e2-s2+1)*uint64(lss), a2
	err = t2.Write(dev, diskSize)
	vp.Assert(err == nil, "a table that was read can be written")
	vp.Assert(len(dev.Log) == 2*n1, "the rewrite issues the same number of writes")
	for i := 0; i < n1; i++ {
		ra, rb := dev.Log[i], dev.Log[n1+i]
		vp.Assert(ra.Off == rb.Off, "rewrite: same offset")
		vp.Assert(len(ra.Data) == len(rb.Data), "rewrite: same length")
		var diff byte
		for j := range ra.Data {
			diff |= ra.Data[j] ^ rb.Data[j]
		}
		vp.Assert(diff == 0, "rewriting a table that was read from disk changes nothing")
	}
	vp.Assert(vp.NondetSources() == 0, "Write, Read, Write consult no clock, random source or map order")
	vp.Cover("rewritten")
}

func VP_C14_gpt_rewrite_read_1m_512()  { c14RewriteRead(1<<20, 512, true, 1, 2, 15, 0xffff) }
func VP_C14_gpt_rewrite_read_min_512() { c14RewriteRead(70*512, 512, false, 128, 3, 1, 1) }
func VP_C14_gpt_rewrite_read_3t_512()  { c14RewriteRead(3<<40, 512, true, 5, 2, 0xffff, 0x1ffffffff) }
func VP_C14_gpt_rewrite_read_1g_4096() { c14RewriteRead(1<<30, 4096, true, 2, 77, 15, 0xfffff) }

// VP_C14_gpt_detector_random_guid is NOT part of the claim (the disk GUID is not given here): it
// shows that the checks above are not blind - a table without a disk GUID makes Write (its first step,
// initTable) draw a random GUID and the engine's log of nondeterminism sources sees it (if it did not,
// this harness would have no reachable Cover and be reported as vacuous).
func VP_C14_gpt_detector_random_guid() {
	t := &Table{LogicalSectorSize: 512, PhysicalSectorSize: 512}
	t.initTable(1 << 22)
	if vp.NondetSources() > 0 {
		vp.Cover("a missing disk GUID is drawn at random and the nondeterminism log sees it")
	}
}

package gpt

import (
	"github.com/diskfs/go-diskfs/internal/vp"
)

func VP_C14_dbg_hdr() {
	lss := 512
	sectors := vp.U64("sectors")
	vp.Assume(sectors >= 6+2*uint64(128*128/lss))
	vp.Assume(sectors <= 1<<50)
	c14Assume(sectors, lss)
	size := int64(sectors) * int64(lss)
	t1 := c14Table(lss, true, 1, 2)
	t2 := c14Table(lss, true, 1, 2)
	t1.initTable(size)
	t2.initTable(size)
	a1, e1 := t1.toPartitionArrayBytes()
	a2, e2 := t2.toPartitionArrayBytes()
	vp.Assert(e1 == nil, "e1")
	vp.Assert(e2 == nil, "e2")
	for j := 0; j < 384; j++ {
		vp.Assert(a1[j] == a2[j], "array byte")
	}
	h1, e1 := t1.toGPTBytes(true)
	h2, e2 := t2.toGPTBytes(true)
	vp.Assert(e1 == nil, "e1h")
	vp.Assert(e2 == nil, "e2h")
	for j := 0; j < 100; j++ {
		vp.Assert(h1[j] == h2[j], "hdr byte")
	}
	vp.Cover("done")
}

package gpt

import (
	"unicode/utf16"

	"github.com/diskfs/go-diskfs/internal/vp"
	"github.com/diskfs/go-diskfs/internal/vp/vpdev"
)

const (
	c02TypeA = "C12A7328-F81F-11D2-BA4B-00A0C93EC93B" // EFI system
	c02GuidA = "5CA3360B-5DE6-4FCF-B4CE-419CEE433B51"
	c02GuidB = "0B1C2D3E-4F50-6172-8394-A5B6C7D8E9FA"
	c02DiskG = "43E51892-3273-42F7-BCDA-B43B80CDFC48"
)

func le32(d *vpdev.MemDev, o int64) uint32 {
	return uint32(d.ByteAt(o)) | uint32(d.ByteAt(o+1))<<8 | uint32(d.ByteAt(o+2))<<16 | uint32(d.ByteAt(o+3))<<24
}
func le64(d *vpdev.MemDev, o int64) uint64 {
	return uint64(le32(d, o)) | uint64(le32(d, o+4))<<32
}

// c02WriteRead: a table with two partitions whose numeric fields are arbitrary (valid) is written
// to a disk of the given size and read back from the bytes alone.
func c02WriteRead(diskSize int64, lss int, pmbr bool, i1, i2 int) {
	sectors := uint64(diskSize) / uint64(lss)
	arraySectors := uint64(128*128) / uint64(lss)
	firstUsable := 2 + arraySectors
	lastUsable := sectors - 2 - arraySectors
	s1, e1 := vp.U64("p1.start"), vp.U64("p1.end")
	s2, n2 := vp.U64("p2.start"), vp.U64("p2.sectors")
	a1, a2 := vp.U64("p1.attr"), vp.U64("p2.attr")
	vp.Assume(s1 >= firstUsable)
	vp.Assume(e1 >= s1)
	vp.Assume(e1 <= lastUsable)
	vp.Assume(s2 >= firstUsable)
	vp.Assume(n2 >= 1)
	vp.Assume(n2 <= lastUsable)
	vp.Assume(s2 <= lastUsable-n2+1)
	// spelling 1: start+end; spelling 2: start+size
	p1 := &Partition{Index: i1, Start: s1, End: e1, Type: Type(c02TypeA), Name: "EFI System", GUID: c02GuidA, Attributes: a1}
	p2 := &Partition{Index: i2, Start: s2, Size: n2 * uint64(lss), Type: LinuxFilesystem, Name: "root", GUID: c02GuidB, Attributes: a2}
	t := &Table{Partitions: []*Partition{p1, p2}, LogicalSectorSize: lss, PhysicalSectorSize: lss, GUID: c02DiskG, ProtectiveMBR: pmbr}
	dev := vpdev.NewMemDev("disk", diskSize)
	err := t.Write(dev, diskSize)
	vp.Assert(err == nil, "Write accepts the table")
	vp.Cover("written")

	// --- independent parse of the primary header (UEFI 2.x, table 5-5) ---
	h := int64(lss)
	vp.Assert(le64(dev, h+0) == 0x5452415020494645, "signature EFI PART")
	vp.Assert(le32(dev, h+8) == 0x00010000, "revision 1.0")
	vp.Assert(le32(dev, h+12) == 92, "header size 92")
	vp.Assert(le64(dev, h+24) == 1, "primary: MyLBA = 1")
	vp.Assert(le64(dev, h+32) == sectors-1, "primary: AlternateLBA = last sector")
	vp.Assert(le64(dev, h+40) == firstUsable, "first usable LBA")
	vp.Assert(le64(dev, h+48) == lastUsable, "last usable LBA")
	vp.Assert(le64(dev, h+72) == 2, "primary array at LBA 2")
	vp.Assert(le32(dev, h+80) == 128, "128 entries")
	vp.Assert(le32(dev, h+84) == 128, "entry size 128")
	// backup header at the last sector mirrors the primary
	bh := int64(sectors-1) * int64(lss)
	vp.Assert(le64(dev, bh+0) == 0x5452415020494645, "backup signature")
	vp.Assert(le64(dev, bh+24) == sectors-1, "backup: MyLBA = last sector")
	vp.Assert(le64(dev, bh+32) == 1, "backup: AlternateLBA = 1")
	vp.Assert(le64(dev, bh+40) == firstUsable, "backup first usable LBA")
	vp.Assert(le64(dev, bh+48) == lastUsable, "backup last usable LBA")
	vp.Assert(le64(dev, bh+72) == sectors-1-arraySectors, "backup array right before the backup header")
	vp.Assert(le32(dev, bh+88) == le32(dev, h+88), "both headers carry the same array CRC")
	for i := int64(56); i < 72; i++ {
		vp.Assert(dev.ByteAt(bh+i) == dev.ByteAt(h+i), "both headers carry the same disk GUID")
	}
	// entry slots: entry i at (i-1)*128 in both arrays
	pa := int64(2 * lss)
	ba := int64(sectors-1-arraySectors) * int64(lss)
	o1 := int64(i1-1) * 128
	o2 := int64(i2-1) * 128
	vp.Assert(le64(dev, pa+o1+32) == s1, "entry 1: first LBA")
	vp.Assert(le64(dev, pa+o1+40) == e1, "entry 1: last LBA")
	vp.Assert(le64(dev, pa+o1+48) == a1, "entry 1: attributes")
	vp.Assert(le64(dev, pa+o2+32) == s2, "entry 2: first LBA")
	vp.Assert(le64(dev, pa+o2+40) == s2+n2-1, "entry 2: last LBA = start + size/lss - 1")
	vp.Assert(le64(dev, ba+o1+32) == s1, "backup entry 1: first LBA")
	vp.Assert(le64(dev, ba+o2+40) == s2+n2-1, "backup entry 2: last LBA")
	if pmbr {
		vp.Assert(dev.ByteAt(510) == 0x55, "protective MBR signature 55")
		vp.Assert(dev.ByteAt(511) == 0xaa, "protective MBR signature AA")
		vp.Assert(dev.ByteAt(446+4) == 0xee, "protective MBR type EE")
		vp.Assert(le32(dev, 446+8) == 1, "protective MBR starts at LBA 1")
		want := uint64(0xFFFFFFFF)
		if sectors-1 < want {
			want = sectors - 1
		}
		vp.Assert(uint64(le32(dev, 446+12)) == want, "protective MBR covers the disk (size = min(sectors-1, 0xFFFFFFFF))")
	}

	// --- the library's own reader, from the bytes alone ---
	t2, err := Read(dev, lss, lss)
	vp.Assert(err == nil, "Read accepts what Write produced")
	vp.Assert(!t2.RecoveredFromBackup, "a completed Write reads back from the primary copy")
	vp.Assert(t2.GUID == c02DiskG, "disk GUID survives")
	vp.Assert(t2.ProtectiveMBR == pmbr, "protective MBR flag survives")
	vp.Assert(len(t2.Partitions) == 2, "two partitions read back")
	// entries come back in slot order
	qa, qb := t2.Partitions[0], t2.Partitions[1]
	q1, q2 := qa, qb
	if i2 < i1 {
		q1, q2 = qb, qa
	}
	vp.Assert(q1.Index == i1 && q2.Index == i2, "indices survive")
	vp.Assert(q1.Start == s1 && q1.End == e1, "partition 1 start/end survive")
	vp.Assert(q1.Size == (e1-s1+1)*uint64(lss), "partition 1 size = sectors * lss")
	vp.Assert(q2.Start == s2 && q2.End == s2+n2-1, "partition 2 start/end survive")
	vp.Assert(q2.Size == n2*uint64(lss), "partition 2 size survives")
	vp.Assert(q1.Attributes == a1 && q2.Attributes == a2, "attributes survive")
	vp.Assert(q1.Type == Type(c02TypeA) && q2.Type == LinuxFilesystem, "type GUIDs survive")
	vp.Assert(q1.GUID == c02GuidA && q2.GUID == c02GuidB, "partition GUIDs survive")
	vp.Assert(q1.Name == "EFI System" && q2.Name == "root", "names survive")
	vp.Assert(q1.GetStart() == int64(s1)*int64(lss), "byte start = LBA * lss")
	vp.Assert(q1.GetSize() == int64(e1-s1+1)*int64(lss), "byte size")
	vp.Cover("read back")
}

// indices are case-split (sparse, unordered, last slot); numeric fields are solver variables
func VP_C02_gpt_write_read_1m_512()  { c02WriteRead(1<<20, 512, true, 1, 2) }
func VP_C02_gpt_write_read_min_512() { c02WriteRead(70*512, 512, false, 128, 3) }
func VP_C02_gpt_write_read_3t_512()  { c02WriteRead(3<<40, 512, true, 5, 2) }
func VP_C02_gpt_write_read_1g_4096() { c02WriteRead(1<<30, 4096, true, 2, 77) }

// c02Entry: one partition entry with arbitrary numeric fields and the given name is
// serialised and parsed back (entry codec incl. UTF-16 name and mixed-endian GUIDs).
func c02Entry(name string) {
	units := len(utf16.Encode([]rune(name)))
	s, e, a := vp.U64("start"), vp.U64("end"), vp.U64("attr")
	p := &Partition{Index: 1, Start: s, End: e, Type: Type(c02TypeA), Name: name, GUID: c02GuidB, Attributes: a}
	b, err := p.toBytes()
	vp.Assert(err == nil, "a name of at most 36 UTF-16 units is accepted")
	vp.Assert(len(b) == 128, "entry is 128 bytes")
	// independent view: type GUID is mixed-endian C12A7328-F81F-11D2-BA4B-00A0C93EC93B
	want := []byte{0x28, 0x73, 0x2A, 0xC1, 0x1F, 0xF8, 0xD2, 0x11, 0xBA, 0x4B, 0x00, 0xA0, 0xC9, 0x3E, 0xC9, 0x3B}
	for i := range want {
		vp.Assert(b[i] == want[i], "type GUID bytes are mixed-endian")
	}
	// name area: exactly `units` code units, zero padded
	for i := units; i < 36; i++ {
		vp.Assert(b[56+2*i] == 0 && b[57+2*i] == 0, "name is zero padded")
	}
	if units > 0 {
		vp.Assert(b[56+2*(units-1)] != 0 || b[57+2*(units-1)] != 0, "last code unit is stored")
	}
	q, err := partitionFromBytes(1, b, 512, 512)
	vp.Assert(err == nil, "entry parses")
	vp.Assert(q != nil, "entry is not reported unused")
	vp.Assert(q.Start == s && q.End == e && q.Attributes == a, "numeric fields survive")
	vp.Assert(q.Name == name, "name survives exactly")
	vp.Assert(q.Type == Type(c02TypeA), "type GUID survives")
	vp.Assert(q.GUID == c02GuidB, "partition GUID survives")
	vp.Cover("entry roundtrip")
}

func VP_C02_gpt_entry_name0()  { c02Entry("") }
func VP_C02_gpt_entry_name1()  { c02Entry("x") }
func VP_C02_gpt_entry_name35() { c02Entry("abcdefghijklmnopqrstuvwxyz012345678") }
func VP_C02_gpt_entry_name36() { c02Entry("abcdefghijklmnopqrstuvwxyz0123456789") }
func VP_C02_gpt_entry_nameU()  { c02Entry("Größe-日本語-ディスク") }
func VP_C02_gpt_entry_nameS()  { c02Entry("abcdefghijklmnopqrstuvwxyz01234567\U0001F4BE") }

// c02EntryTooLong: a name that needs more than 36 UTF-16 code units (whatever its rune count) is
// refused with an error: it must neither panic nor be cut silently.
func c02EntryTooLong(name string) {
	p := &Partition{Index: 1, Start: vp.U64("start"), End: vp.U64("end"), Type: Type(c02TypeA), Name: name, GUID: c02GuidB}
	vp.NoPanic()
	b, err := p.toBytes()
	vp.AllowPanic()
	vp.Assert(err != nil, "a name of more than 36 UTF-16 units is refused")
	vp.Assert(b == nil, "no entry bytes for a refused name")
	vp.Cover("over-long name refused")
}

// 36 runes, 37 units (last rune outside the basic plane) / 37 ASCII runes
func VP_C02_gpt_entry_name37units() { c02EntryTooLong("abcdefghijklmnopqrstuvwxyz012345678\U0001F4BE") }
func VP_C02_gpt_entry_name37()      { c02EntryTooLong("abcdefghijklmnopqrstuvwxyz01234567890") }

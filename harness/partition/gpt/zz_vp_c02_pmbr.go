package gpt

import (
	"github.com/diskfs/go-diskfs/internal/vp"
	"github.com/diskfs/go-diskfs/internal/vp/vpdev"
)

// c02PmbrOverMbr: gpt.Table.Write with ProtectiveMBR = true on a disk whose sector 0 holds
// ARBITRARY previous content (a classic MBR with four used slots, boot code, any signature ...):
// afterwards sector 0 is a protective MBR in the sense of UEFI 5.2.3 -
//
//	bytes 0..445   (boot code, disk signature) are the previous bytes, untouched,
//	slot 1         non-bootable, type 0xEE, first LBA 1, size min(sectors-1, 0xFFFFFFFF),
//	slots 2..4     48 zero bytes (no leftover of the previous table),
//	bytes 510,511  55 AA,
//	rest of a 4 KiB sector 0 untouched,
//
// and the library's own reader reports ProtectiveMBR = true from the bytes alone.
func c02PmbrOverMbr(diskSize int64, lss int) {
	sectors := uint64(diskSize) / uint64(lss)
	dev := vpdev.NewMemDev("disk", diskSize)
	dev.UF = true // every byte of the disk is arbitrary before the write
	old := make([]byte, lss)
	for i := range old {
		old[i] = dev.ByteAt(int64(i))
	}
	p1 := &Partition{Index: 1, Start: uint64(2 + 128*128/lss), End: uint64(2+128*128/lss) + 7, Type: LinuxFilesystem, Name: "data", GUID: c02GuidA}
	t := &Table{Partitions: []*Partition{p1}, LogicalSectorSize: lss, PhysicalSectorSize: lss, GUID: c02DiskG, ProtectiveMBR: true}
	err := t.Write(dev, diskSize)
	vp.Assert(err == nil, "Write accepts the table")
	vp.Cover("written over arbitrary sector 0")

	// no write touches the boot code area or the rest of sector 0 beyond byte 512
	for i := range dev.Log {
		w := dev.Log[i]
		a, b := w.Off, w.Off+int64(w.Len)
		if a < int64(lss) {
			vp.Assert(a >= 446, "a write into sector 0 does not start before the MBR entry area")
			vp.Assert(b <= 512, "a write into sector 0 ends with the MBR signature")
		}
	}
	for i := 0; i < 446; i++ {
		vp.Assert(dev.ByteAt(int64(i)) == old[i], "boot code area [0,446) keeps its previous bytes")
	}
	for i := 512; i < lss; i++ {
		vp.Assert(dev.ByteAt(int64(i)) == old[i], "bytes of sector 0 after the MBR keep their previous bytes")
	}
	// slot 1: the protective partition
	vp.Assert(dev.ByteAt(446) == 0x00, "slot 1: not bootable")
	vp.Assert(dev.ByteAt(446+4) == 0xee, "slot 1: type EE")
	vp.Assert(le32(dev, 446+8) == 1, "slot 1: starts at LBA 1")
	want := uint64(0xFFFFFFFF)
	if sectors-1 < want {
		want = sectors - 1
	}
	vp.Assert(uint64(le32(dev, 446+12)) == want, "slot 1: covers the disk (min(sectors-1, 0xFFFFFFFF))")
	// slots 2..4: nothing of the previous table survives
	for i := int64(446 + 16); i < 510; i++ {
		vp.Assert(dev.ByteAt(i) == 0, "MBR slots 2..4 are zero after writing a protective MBR")
	}
	vp.Assert(dev.ByteAt(510) == 0x55, "MBR signature 55")
	vp.Assert(dev.ByteAt(511) == 0xaa, "MBR signature AA")

	// the library's own reader, from the bytes alone
	t2, err := Read(dev, lss, lss)
	vp.Assert(err == nil, "Read accepts what Write produced")
	vp.Assert(t2.ProtectiveMBR, "Read reports the protective MBR")
	vp.Assert(!t2.RecoveredFromBackup, "read from the primary copy")
	vp.Assert(len(t2.Partitions) == 1, "one partition read back")
	vp.Cover("read back")
}

func VP_C02_gpt_pmbr_over_mbr_1m_512()  { c02PmbrOverMbr(1<<20, 512) }
func VP_C02_gpt_pmbr_over_mbr_3t_512()  { c02PmbrOverMbr(3<<40, 512) }
func VP_C02_gpt_pmbr_over_mbr_1g_4096() { c02PmbrOverMbr(1<<30, 4096) }

// VP_C02_gpt_pmbr_over_mbr_concrete: the same with a concrete classic MBR (four used slots, one of
// them bootable) so that the native replay exercises exactly the situation of the claim.
func VP_C02_gpt_pmbr_over_mbr_concrete() {
	const size = 1 << 20
	img := make([]byte, 512)
	for i := range img {
		img[i] = byte(0xA5 ^ i)
	}
	boot := vp.U8("slot3.boot")
	img[446+32] = boot
	img[510], img[511] = 0x55, 0xaa
	dev := vpdev.NewMemDev("disk", size)
	dev.Image = img
	t := &Table{LogicalSectorSize: 512, PhysicalSectorSize: 512, GUID: c02DiskG, ProtectiveMBR: true,
		Partitions: []*Partition{{Index: 1, Start: 34, End: 40, Type: LinuxFilesystem, Name: "data", GUID: c02GuidA}}}
	err := t.Write(dev, size)
	vp.Assert(err == nil, "Write accepts the table")
	for i := 0; i < 446; i++ {
		vp.Assert(dev.ByteAt(int64(i)) == byte(0xA5^i), "boot code kept")
	}
	for i := int64(462); i < 510; i++ {
		vp.Assert(dev.ByteAt(i) == 0, "slots 2..4 of the previous MBR are cleared")
	}
	vp.Assert(dev.ByteAt(450) == 0xee, "slot 1 is the protective partition")
	t2, err := Read(dev, 512, 512)
	vp.Assert(err == nil, "Read accepts the disk")
	vp.Assert(t2.ProtectiveMBR, "Read reports the protective MBR")
	vp.Cover("classic MBR replaced by a protective MBR")
}

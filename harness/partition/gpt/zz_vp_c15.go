package gpt

import (
	"encoding/binary"
	"hash/crc32"

	"github.com/diskfs/go-diskfs/internal/vp"
	"github.com/diskfs/go-diskfs/internal/vp/vpdev"
)

// c15Slack: allocations up to twice the device size plus this constant are considered in
// proportion to the device (the reader legitimately uses fixed-size buffers of up to 1 MiB).
const c15Slack = 4 << 20

// c15Arbitrary: gpt.Read on a device whose every byte and whose size are arbitrary.
// No panic, bounded allocation, bounded loops.
func c15Arbitrary(lss int, size int64) {
	dev := vpdev.NewMemDev("disk", size)
	dev.UF = true
	dev.NoWrites = true
	vp.Unwind(40)
	vp.AllocCap(vp.Bound("alloccap", 200, 300)) // at most 1 (2) entries are decoded here; VP_C15_gpt_entry covers the decoder for any entry
	vp.AllocLimit(uint64(2*size + c15Slack))
	vp.NoPanic()
	t, err := Read(dev, lss, lss)
	vp.AllowPanic()
	if err == nil {
		vp.Assert(t != nil, "a table is returned when there is no error")
		vp.Cover("arbitrary device accepted as GPT")
	} else {
		vp.Cover("arbitrary device rejected")
	}
}

func VP_C15_gpt_arbitrary_512_0()     { c15Arbitrary(512, 0) }
func VP_C15_gpt_arbitrary_512_700()   { c15Arbitrary(512, 700) }
func VP_C15_gpt_arbitrary_512_1024()  { c15Arbitrary(512, 1024) }
func VP_C15_gpt_arbitrary_512_1300()  { c15Arbitrary(512, 1300) }
func VP_C15_gpt_arbitrary_512_32k() {
	if vp.Thorough() { // the backup path on a device with room for both copies: thorough tier only
		c15Arbitrary(512, 32768)
	}
}
func VP_C15_gpt_arbitrary_4096_32k() {
	if vp.Thorough() {
		c15Arbitrary(4096, 32768)
	}
}
func VP_C15_gpt_arbitrary_4096_5000() { c15Arbitrary(4096, 5000) }

// c15ValidCRC: the attacker controls every header field and recomputes the header CRC
// (the signature/revision/size bytes are the valid constants so that parsing goes on).
// VP_C15_gpt_header: readGPTHeader on an arbitrary sector.
func VP_C15_gpt_header() {
	b := vp.Bytes("sector", 512)
	vp.NoPanic()
	t, err := readGPTHeader(b)
	vp.AllowPanic()
	if err == nil {
		vp.Assert(t != nil, "table returned")
		// the header CRC was checked: recomputing it over the (CRC-zeroed) header gives the stored value
		vp.Cover("arbitrary sector accepted as header")
	} else {
		vp.Cover("arbitrary sector rejected")
	}
}

// VP_C15_gpt_load_entries: loadEntries with every geometry field of the header arbitrary on an
// arbitrary device: no panic, allocation bounded by what the device holds, and a table is only
// returned when the entries' CRC equals the header's field.
func c15LoadEntries(lss int, devsize int64) {
	t := &Table{
		partitionEntrySize:     vp.U32("entrySize"),
		partitionArraySize:     int(vp.U32("count")),
		partitionFirstLBA:      vp.U64("arrayLBA"),
		partitionEntryChecksum: vp.U32("arrayCRC"),
		LogicalSectorSize:      lss, PhysicalSectorSize: lss,
	}
	dev := vpdev.NewMemDev("disk", devsize)
	dev.UF = true
	dev.NoWrites = true
	vp.Unwind(40)
	vp.AllocCap(vp.Bound("alloccap", 200, 300)) // at most 1 (2) entries are decoded here; VP_C15_gpt_entry covers the decoder for any entry
	vp.AllocLimit(uint64(2*devsize + c15Slack))
	vp.MaxLoop(40)
	vp.NoPanic()
	// the array is read in rounds of at most 1 MiB and a round that delivers less than asked ends the
	// read: on a device of at most 1 MiB no more than devsize/1MiB + 2 rounds can happen (c15CountDev)
	t2, err := loadEntries(&c15CountDev{MemDev: dev, max: 4}, t, lss, lss)
	vp.AllowPanic()
	if err == nil {
		vp.Assert(t2 != nil, "table returned")
		vp.Assert(t.partitionEntrySize == 128, "only 128-byte entries are decoded")
		vp.Cover("entries accepted")
	} else {
		vp.Cover("entries rejected")
	}
}

// VP_C15_gpt_crc_covers: a header that announces exactly one 128-byte entry (valid CRC over those
// 128 bytes, computed by the attacker): whatever follows the entry on the device is not covered
// by the CRC and must not show up as a partition.
func VP_C15_gpt_crc_covers() {
	lss := 512
	dev := vpdev.NewMemDev("disk", 1<<20)
	dev.UF = true
	dev.NoWrites = true
	first := make([]byte, 128)
	for i := range first {
		first[i] = dev.ByteAt(1024 + int64(i))
	}
	t := &Table{partitionEntrySize: 128, partitionArraySize: 1, partitionFirstLBA: 2,
		partitionEntryChecksum: crc32.ChecksumIEEE(first), LogicalSectorSize: lss, PhysicalSectorSize: lss}
	// keep the single covered entry cheap: it is unused (zero type GUID)
	for i := 0; i < 16; i++ {
		vp.Assume(first[i] == 0)
	}
	vp.Unwind(40)
	vp.AllocCap(600)
	vp.NoPanic()
	t2, err := loadEntries(dev, t, lss, lss)
	vp.AllowPanic()
	if err == nil {
		vp.Assert(len(t2.Partitions) <= 1, "no more partitions than the entry count the CRC covers")
		vp.Assert(len(t2.Partitions) == 0, "the covered entry is unused, so no partition is reported")
		vp.Cover("one covered entry accepted")
	}
	vp.Cover("done")
}

func VP_C15_gpt_load_entries_512()   { c15LoadEntries(512, 1<<20) }
func VP_C15_gpt_load_entries_4096()  { c15LoadEntries(4096, 1<<20) }
func VP_C15_gpt_load_entries_small() { c15LoadEntries(512, 1500) }

// c15Array: readPartitionArrayBytes on arbitrary bytes with the given entry size (case-split):
// terminates within len(b)/entrySize (+1) iterations, never panics.
func c15Array(es int) {
	n := vp.Bound("arraybytes", 384, 640)
	b := vp.Bytes("array", n)
	// slots are marked unused (zero type GUID) so that the slot loop itself is what is explored;
	// the decoding of a used slot is VP_C15_gpt_entry
	for k := 0; k < n; k++ {
		if k%128 < 16 {
			vp.Assume(b[k] == 0)
		}
	}
	vp.Unwind(40)
	vp.MaxLoop(38) // the name loop of an entry has 36 iterations; the slot loop at most n/128+1
	vp.NoPanic()
	parts, err := readPartitionArrayBytes(b, es, 512, 512)
	vp.AllowPanic()
	if err == nil {
		vp.Assert(es == 128 || len(parts) == 0, "entries are only decoded from 128-byte slots")
		vp.Assert(len(parts) <= n/128, "no more partitions than slots")
		vp.Cover("array decoded")
	} else {
		vp.Cover("array rejected")
	}
}

func VP_C15_gpt_array_es0()   { c15Array(0) }
func VP_C15_gpt_array_es1()   { c15Array(1) }
func VP_C15_gpt_array_es127() { c15Array(127) }
func VP_C15_gpt_array_es128() { c15Array(128) }
func VP_C15_gpt_array_es129() { c15Array(129) }
func VP_C15_gpt_array_es256() { c15Array(256) }
func VP_C15_gpt_array_esbig() { c15Array(1 << 31) }

// VP_C15_gpt_entry: partitionFromBytes on an arbitrary 128-byte entry.
func VP_C15_gpt_entry() {
	b := vp.Bytes("entry", 128)
	vp.Unwind(40)
	vp.NoPanic()
	p, err := partitionFromBytes(1, b, 512, 512)
	vp.AllowPanic()
	if err == nil && p != nil {
		vp.Assert(p.Start == binary.LittleEndian.Uint64(b[32:40]), "first LBA decoded from the entry bytes")
		vp.Assert(p.End == binary.LittleEndian.Uint64(b[40:48]), "last LBA decoded from the entry bytes")
		vp.Cover("arbitrary entry decoded")
	}
	vp.Cover("done")
}

// VP_C15_gpt_valid_header_read: the attacker recomputes the header CRC over arbitrary geometry
// fields (device 32 KiB): Read never panics and never allocates beyond the device.
func VP_C15_gpt_valid_header_read() {
	lss := 512
	size := int64(64 * lss)
	hdr := make([]byte, lss)
	copy(hdr, getEfiSignature())
	copy(hdr[8:], getEfiRevision())
	copy(hdr[12:], getEfiHeaderSize())
	binary.LittleEndian.PutUint64(hdr[24:], vp.U64("myLBA"))
	binary.LittleEndian.PutUint64(hdr[32:], vp.U64("altLBA"))
	binary.LittleEndian.PutUint64(hdr[72:], vp.U64("arrayLBA"))
	binary.LittleEndian.PutUint32(hdr[80:], vp.U32("count"))
	binary.LittleEndian.PutUint32(hdr[84:], vp.U32("entrySize"))
	binary.LittleEndian.PutUint32(hdr[88:], vp.U32("arrayCRC"))
	binary.LittleEndian.PutUint32(hdr[16:], crc32.ChecksumIEEE(hdr[0:92]))
	dev := vpdev.NewMemDev("disk", size)
	dev.Log = append(dev.Log, vpdev.WRec{Off: int64(lss), Len: lss, Data: hdr})
	dev.NoWrites = true
	vp.Unwind(40)
	vp.AllocCap(200)
	vp.AllocLimit(uint64(2*size + c15Slack))
	vp.NoPanic()
	_, err := Read(dev, lss, lss)
	vp.AllowPanic()
	if err == nil {
		vp.Cover("forged header accepted")
	} else {
		vp.Cover("forged header rejected")
	}
}


// c15CountDev fails an assertion when the code under test issues more than max reads.
type c15CountDev struct {
	*vpdev.MemDev
	n, max int
}

func (d *c15CountDev) ReadAt(p []byte, off int64) (int, error) {
	d.n++
	vp.Assert(d.n <= d.max, "the entries array is read in a bounded number of rounds")
	return d.MemDev.ReadAt(p, off)
}

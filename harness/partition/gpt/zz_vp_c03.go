package gpt

import (
	"github.com/diskfs/go-diskfs/internal/vp"
	"github.com/diskfs/go-diskfs/internal/vp/vpdev"
)

// c03TableWrite: Table.Write touches only the table's own sectors: the MBR entry area and
// signature [446,512), the primary header sector and entry array, the backup array and header.
// Never the boot code [0,446), never the usable area [firstUsable, lastUsable].
func c03TableWrite(diskSize int64, lss int, pmbr bool) {
	sectors := diskSize / int64(lss)
	arraySectors := int64(128*128) / int64(lss)
	s1, n1 := vp.U64("p1.start"), vp.U64("p1.sectors")
	firstUsable := uint64(2 + arraySectors)
	lastUsable := uint64(sectors - 2 - arraySectors)
	vp.Assume(s1 >= firstUsable)
	vp.Assume(n1 >= 1)
	vp.Assume(n1 <= lastUsable)
	vp.Assume(s1 <= lastUsable-n1+1)
	p1 := &Partition{Index: 1, Start: s1, Size: n1 * uint64(lss), Type: LinuxFilesystem, Name: "data", GUID: c02GuidA}
	t := &Table{Partitions: []*Partition{p1}, LogicalSectorSize: lss, PhysicalSectorSize: lss, GUID: c02DiskG, ProtectiveMBR: pmbr}
	dev := vpdev.NewMemDev("disk", diskSize)
	dev.NoData = true
	err := t.Write(dev, diskSize)
	vp.Assert(err == nil, "Write accepts the table")
	for i := range dev.Log {
		w := dev.Log[i]
		a, b := w.Off, w.Off+int64(w.Len)
		inMBR := a >= 446 && b <= 512
		inPrimary := a >= int64(lss) && b <= int64(2+arraySectors)*int64(lss)
		inBackup := a >= (sectors-1-arraySectors)*int64(lss) && b <= sectors*int64(lss)
		vp.Assert(inMBR || inPrimary || inBackup, "every write lies in the MBR entry area, the primary GPT or the backup GPT")
		if !pmbr {
			vp.Assert(!inMBR, "without ProtectiveMBR sector 0 is not touched")
		}
	}
	vp.Cover("table written")
}

func VP_C03_gpt_table_write_1m()      { c03TableWrite(1<<20, 512, true) }
func VP_C03_gpt_table_write_nopmbr()  { c03TableWrite(1<<20, 512, false) }
func VP_C03_gpt_table_write_4k()      { c03TableWrite(1<<24, 4096, true) }
func VP_C03_gpt_table_write_3t()      { c03TableWrite(3<<40, 512, true) }

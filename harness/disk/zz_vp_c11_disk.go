package disk

import (
	"github.com/diskfs/go-diskfs/backend"
	"github.com/diskfs/go-diskfs/backend/file"
	"github.com/diskfs/go-diskfs/filesystem"
	"github.com/diskfs/go-diskfs/internal/vp"
	"github.com/diskfs/go-diskfs/internal/vp/vpdev"
	"github.com/diskfs/go-diskfs/partition/gpt"
	"github.com/diskfs/go-diskfs/partition/mbr"
)

// C11 at the level of disk.Disk: Partition, WritePartitionContents and CreateFilesystem on a
// disk whose backend is read-only, for an ARBITRARY read-only flag (the solver decides both
// values): with the flag set every call must return an error and no WriteAt may reach the image;
// with the flag clear the same call does write (witness that the harness is not vacuous).
//
// Backends (case split, they are different object graphs):
//
//	c11Plain - a backend.Storage whose own Writable() fails       ("a backend whose Writable() fails")
//	c11File  - file.New(image, readOnly)                          ("file.New(readOnly=true)"; also what diskfs.Open builds)
//	c11Sub   - backend.Sub(file.New(image, readOnly), off, size)  (the partition view filesystems are given)
const (
	c11Plain = iota
	c11File
	c11Sub
)

// c11Img is the image file: a MemDev whose WriteAt is a violation when the backend in front of
// it was opened read-only, and which ends the run at the first legitimate write (the content of
// legitimate writes belongs to other properties).
type c11Img struct {
	*vpdev.MemDev
	refuse bool // its own Writable() fails
	ro     bool // opened read-only: no write may arrive
	writes int
}

func (d *c11Img) Writable() (backend.WritableFile, error) {
	if d.refuse {
		return nil, backend.ErrIncorrectOpenMode
	}
	return d, nil
}

func (d *c11Img) WriteAt(p []byte, off int64) (int, error) {
	vp.Assert(!d.ro, "no WriteAt reaches an image that was opened read-only")
	d.writes++
	vp.Stop("read-write disk: the call writes to the image")
	return len(p), nil
}

func c11Disk(kind int, size int64) (*Disk, *c11Img, bool) {
	return c11DiskRO(kind, size, vp.Bool("readOnly"))
}

func c11DiskRO(kind int, size int64, ro bool) (*Disk, *c11Img, bool) {
	img := &c11Img{MemDev: vpdev.NewMemDev("img", size), ro: ro}
	img.UF = true
	var b backend.Storage
	switch kind {
	case c11Plain:
		img.refuse = ro
		b = img
	case c11File:
		b = file.New(img, ro)
	default:
		off := vp.I64("sub.off")
		vp.Assume(off >= 0)
		vp.Assume(off <= 1<<40)
		b = backend.Sub(file.New(img, ro), off, size)
	}
	return &Disk{Backend: b, Size: size, LogicalBlocksize: 512, PhysicalBlocksize: 512, DefaultBlocks: true}, img, ro
}

func c11MbrTable() *mbr.Table {
	return &mbr.Table{LogicalSectorSize: 512, PhysicalSectorSize: 512, Partitions: []*mbr.Partition{{
		Bootable: vp.Bool("p.boot"), Type: mbr.Type(vp.U8("p.type")), Start: vp.U32("p.start"), Size: vp.U32("p.size"),
	}}}
}

// c11Partition: Disk.Partition(table) with arbitrary partition fields.
func c11Partition(kind int, useGPT bool) {
	d, img, ro := c11Disk(kind, 1<<30)
	vp.NoPanic()
	var err error
	if useGPT {
		start := vp.U64("p.start")
		end := vp.U64("p.end")
		t := &gpt.Table{LogicalSectorSize: 512, PhysicalSectorSize: 512, ProtectiveMBR: vp.Bool("protectiveMBR"),
			GUID:       "5CA3360B-5DE6-4FCF-B4CE-419CEE433B51",
			Partitions: []*gpt.Partition{{Start: start, End: end, Type: gpt.LinuxFilesystem, Name: "data", GUID: "0FC63DAF-8483-4772-8E79-3D69D8477DE5"}}}
		err = d.Partition(t)
	} else {
		err = d.Partition(c11MbrTable())
	}
	vp.AllowPanic()
	if ro {
		vp.Assert(err != nil, "read-only disk: Partition returns an error")
		vp.Assert(img.writes == 0, "read-only disk: Partition wrote nothing")
		vp.Assert(d.Table == nil, "read-only disk: the rejected table is not installed on the Disk")
		vp.Cover("read-only disk refuses Partition")
	}
}

func VP_C11_disk_partition_mbr_plain() { c11Partition(c11Plain, false) }
func VP_C11_disk_partition_mbr_file()  { c11Partition(c11File, false) }
func VP_C11_disk_partition_mbr_sub()   { c11Partition(c11Sub, false) }
func VP_C11_disk_partition_gpt_plain() { c11Partition(c11Plain, true) }
func VP_C11_disk_partition_gpt_file() {
	c11Partition(c11File, true)
	if vp.Thorough() {
		c11Partition(c11Sub, true)
	}
}

// c11WriteContents: Disk.WritePartitionContents(index, reader) on a disk that has an MBR table
// with one partition of arbitrary position and size; the index is arbitrary (found / not found).
func c11WriteContents(kind int) {
	d, img, ro := c11Disk(kind, 1<<30)
	t := c11MbrTable()
	d.Table = t
	idx := vp.Int("index")
	vp.Assume(idx >= -1)
	vp.Assume(idx <= 2)
	rd := &vpdev.ChunkReader{Name: "rd", MaxCalls: 2, NoData: true}
	vp.Unwind(6)
	vp.NoPanic()
	n, err := d.WritePartitionContents(idx, rd)
	vp.AllowPanic()
	if ro {
		vp.Assert(err != nil, "read-only disk: WritePartitionContents returns an error")
		vp.Assert(n <= 0, "read-only disk: no bytes are reported as written")
		vp.Assert(img.writes == 0, "read-only disk: WritePartitionContents wrote nothing")
		vp.Cover("read-only disk refuses WritePartitionContents")
	} else if err != nil {
		vp.Cover("read-write disk: refused for another reason (no such partition / reader)")
	}
}

func VP_C11_disk_write_contents_plain() { c11WriteContents(c11Plain) }
func VP_C11_disk_write_contents_file()  { c11WriteContents(c11File) }
func VP_C11_disk_write_contents_sub()   { c11WriteContents(c11Sub) }

// c11CreateFS: Disk.CreateFilesystem for the filesystem types that format the image directly
// (FAT12/16/32, ext4), whole disk or partition 1, arbitrary disk/partition size inside [lo,hi].
// ISO9660 and squashfs only create a host workspace at this point (os.MkdirTemp: outside the
// engine) and write at Finalize; they are not covered here.
func c11CreateFS(kind int, t filesystem.Type, lo, hi int64) {
	size := lo
	if lo != hi {
		size = vp.I64("size")
		vp.Assume(size >= lo)
		vp.Assume(size <= hi)
	}
	// (the read-only flag is fixed here: with a writable image Create goes through the whole
	// formatting code, which belongs to other properties)
	d, img, ro := c11DiskRO(kind, 1<<40, true)
	d.Size = size
	pn := 0
	if vp.Bool("onPartition") {
		pn = 1
		start := vp.U32("p.start")
		vp.Assume(size%512 == 0)
		d.Table = &mbr.Table{LogicalSectorSize: 512, PhysicalSectorSize: 512, Partitions: []*mbr.Partition{{
			Type: mbr.Fat16b, Start: start, Size: uint32(size / 512)}}}
		d.Size = 1 << 40
	}
	vp.SparseAlloc(true)
	vp.NoPanic()
	_, err := d.CreateFilesystem(FilesystemSpec{Partition: pn, FSType: t, VolumeLabel: "LABEL", Reproducible: true})
	vp.AllowPanic()
	if ro {
		vp.Assert(err != nil, "read-only disk: CreateFilesystem returns an error")
		vp.Assert(img.writes == 0, "read-only disk: CreateFilesystem wrote nothing")
		vp.Cover("read-only disk refuses CreateFilesystem")
	}
}

// size ranges: quick tier up to 8 MiB (FAT12) / 64 MiB (FAT16); thorough tier the whole range each
// Create accepts plus sizes beyond it (128 MiB+ / 2 GiB+). FAT32 checks Writable() before any arithmetic.
func c11Fat12Hi() int64 { return int64(vp.Bound("fat12.maxsize", 8<<20, 129<<20)) }
func c11Fat16Hi() int64 { return int64(vp.Bound("fat16.maxsize", 64<<20, 2049<<20)) }

// The thorough tier adds the remaining backend kinds to the same harness (a second run after the first).
func VP_C11_disk_createfs_fat12_file() {
	c11CreateFS(c11File, filesystem.TypeFat12, 0, c11Fat12Hi())
	if vp.Thorough() {
		c11CreateFS(c11Sub, filesystem.TypeFat12, 0, c11Fat12Hi())
	}
}
func VP_C11_disk_createfs_fat12_plain() { c11CreateFS(c11Plain, filesystem.TypeFat12, 0, c11Fat12Hi()) }
func VP_C11_disk_createfs_fat16_file() {
	c11CreateFS(c11File, filesystem.TypeFat16, 0, c11Fat16Hi())
	if vp.Thorough() {
		c11CreateFS(c11Plain, filesystem.TypeFat16, 0, c11Fat16Hi())
	}
}
func VP_C11_disk_createfs_fat32_file()  { c11CreateFS(c11File, filesystem.TypeFat32, 0, 1<<36) }
func VP_C11_disk_createfs_fat32_plain() { c11CreateFS(c11Plain, filesystem.TypeFat32, 0, 1<<36) }
func VP_C11_disk_createfs_fat32_sub()   { c11CreateFS(c11Sub, filesystem.TypeFat32, 0, 1<<36) }

// mkfs.ext4 arithmetic is float-based: one concrete size per run
func VP_C11_disk_createfs_ext4_file() {
	c11CreateFS(c11File, filesystem.TypeExt4, 16<<20, 16<<20)
	if vp.Thorough() {
		c11CreateFS(c11Plain, filesystem.TypeExt4, 64<<20, 64<<20)
	}
}
func VP_C11_disk_createfs_unknown() { c11CreateFS(c11File, filesystem.Type(99), 0, 1<<36) }

// c11ReadImg: image for the reading entry points: sector 0 is an MBR with one partition of
// arbitrary type/start/size (signature 55 AA), everything else is zero; ANY WriteAt is a violation,
// whatever mode the backend was opened in.
type c11ReadImg struct {
	*vpdev.MemDev
	writes int
}

func (d *c11ReadImg) WriteAt(p []byte, off int64) (int, error) {
	d.writes++
	vp.Assert(false, "a reading entry point called WriteAt on the image")
	return len(p), nil
}

// c11Readers: GetPartitionTable, GetPartition, ReadPartitionContents, GetFilesystem (which runs
// the Read function of all six filesystems) on a disk opened with an arbitrary read-only flag.
func c11Readers(withTable bool, start uint32) {
	ro := vp.Bool("readOnly")
	img := &c11ReadImg{MemDev: vpdev.NewMemDev("img", 1<<20)}
	if withTable {
		m := make([]byte, 512)
		m[446] = vp.U8("p.boot") & 0x80
		m[450] = vp.U8("p.type")
		size := vp.U32("p.size") // the start LBA is a case split (offsets into the image stay concrete)
		vp.Assume(size <= 2)
		m[454], m[455], m[456], m[457] = byte(start), byte(start>>8), byte(start>>16), byte(start>>24)
		m[458], m[459], m[460], m[461] = byte(size), byte(size>>8), byte(size>>16), byte(size>>24)
		m[510], m[511] = 0x55, 0xaa
		img.Image = m
	}
	d := &Disk{Backend: file.New(img, ro), Size: 1 << 20, LogicalBlocksize: 512, PhysicalBlocksize: 512, DefaultBlocks: true}
	vp.Unwind(12)
	vp.NoPanic()
	t, err := d.GetPartitionTable()
	if withTable {
		vp.Assert(err == nil, "the MBR is recognised")
		vp.Assert(t.Type() == "mbr", "table type")
		_, _ = d.GetPartition(1)
		w := &vpdev.ChunkWriter{}
		_, _ = d.ReadPartitionContents(1, w)
		_ = t.Verify(d.Backend, uint64(d.Size))
		_ = t.UUID()
		vp.Cover("table read, partition contents read")
	} else {
		vp.Assert(err != nil, "an all-zero disk has no partition table")
		_, ferr := d.GetFilesystem(0)
		vp.Assert(ferr != nil, "an all-zero disk holds no filesystem")
		vp.Cover("every filesystem reader tried")
	}
	vp.AllowPanic()
	vp.Assert(img.writes == 0, "the reading entry points wrote nothing")
}

func VP_C11_disk_readers_mbr_1()    { c11Readers(true, 1) }
func VP_C11_disk_readers_mbr_2047() { c11Readers(true, 2047) } // the last sector: short read at the end of the image
func VP_C11_disk_readers_blank()    { c11Readers(false, 0) }

package disk

import (
	"fmt"
	"io"
	"io/fs"
	"os"
	"time"

	"github.com/diskfs/go-diskfs/backend"
	"github.com/diskfs/go-diskfs/filesystem"
	"github.com/diskfs/go-diskfs/filesystem/ext4"
	"github.com/diskfs/go-diskfs/internal/vp"
	"github.com/diskfs/go-diskfs/partition/mbr"
	"github.com/google/uuid"
)

// ---------------------------------------------------------------------------------------
// C12.ext4_over_stale_fat: the range held a FAT12/FAT16 volume before (its boot sector, with
// arbitrary geometry fields, is still in sector 0) and an ext4 filesystem is created on it.
// ext4 keeps its superblock at byte 1024; whatever ext4.Create leaves in bytes 0..1023 is seen
// first by the FAT readers, which GetFilesystem probes before ext4. The freshly opened disk
// must report ext4.
// ---------------------------------------------------------------------------------------

// c12StaleFatSector: boot sector of a FAT12/FAT16 volume as this library writes it (Microsoft
// FAT specification layout), numeric geometry fields arbitrary.
func c12StaleFatSector(fstype string, reserved, spf uint16) []byte {
	b := make([]byte, 512)
	b[0], b[1], b[2] = 0xeb, 0x3c, 0x90
	copy(b[3:11], "godiskfs")
	b[11], b[12] = 0x00, 0x02 // 512 bytes per sector
	b[13] = vp.U8("old.spc")
	b[14], b[15] = byte(reserved), byte(reserved>>8)
	b[16] = vp.U8("old.fats")
	vp.Fill(b[17:19], "old.rootEntries")
	vp.Fill(b[19:21], "old.ts16")
	b[21] = vp.U8("old.media")
	b[22], b[23] = byte(spf), byte(spf>>8)
	b[24], b[26] = 63, 255
	vp.Fill(b[32:36], "old.ts32")
	b[36] = 0x80
	b[38] = 0x29
	vp.Fill(b[39:43], "old.serial")
	copy(b[43:54], "OLDVOLUME  ")
	copy(b[54:62], fstype)
	b[510], b[511] = 0x55, 0xaa
	return b
}

type c12Rand struct{ n byte }

func (r *c12Rand) Read(p []byte) (int, error) {
	for i := range p {
		r.n++
		p[i] = r.n
	}
	return len(p), nil
}

// c12Flat is a flat in-memory backend.Storage (concrete geometry, possibly symbolic bytes).
type c12Flat struct {
	img    []byte
	pos    int64
	writes int
}

func (d *c12Flat) ReadAt(p []byte, off int64) (int, error) {
	if off < 0 {
		return 0, fmt.Errorf("c12Flat: negative offset")
	}
	if off >= int64(len(d.img)) {
		return 0, io.EOF
	}
	n := copy(p, d.img[off:])
	if n < len(p) {
		return n, io.EOF
	}
	return n, nil
}

func (d *c12Flat) WriteAt(p []byte, off int64) (int, error) {
	if off < 0 || off+int64(len(p)) > int64(len(d.img)) {
		return 0, fmt.Errorf("c12Flat: write outside device")
	}
	d.writes++
	copy(d.img[off:], p)
	return len(p), nil
}
func (d *c12Flat) Read(p []byte) (int, error) {
	n, err := d.ReadAt(p, d.pos)
	d.pos += int64(n)
	return n, err
}
func (d *c12Flat) Seek(offset int64, whence int) (int64, error) {
	switch whence {
	case io.SeekStart:
		d.pos = offset
	case io.SeekCurrent:
		d.pos += offset
	case io.SeekEnd:
		d.pos = int64(len(d.img)) + offset
	}
	return d.pos, nil
}
func (d *c12Flat) Close() error                            { return nil }
func (d *c12Flat) Stat() (fs.FileInfo, error)              { return c12Info{d}, nil }
func (d *c12Flat) Sys() (*os.File, error)                  { return nil, fmt.Errorf("c12Flat: no os.File") }
func (d *c12Flat) Writable() (backend.WritableFile, error) { return d, nil }
func (d *c12Flat) Path() string                            { return "" }

type c12Info struct{ d *c12Flat }

func (i c12Info) Name() string       { return "c12" }
func (i c12Info) Size() int64        { return int64(len(i.d.img)) }
func (i c12Info) Mode() fs.FileMode  { return 0o644 }
func (i c12Info) ModTime() time.Time { return time.Time{} }
func (i c12Info) IsDir() bool        { return false }
func (i c12Info) Sys() interface{}   { return nil }

func c12Ext4OverFat(fstype string, reserved uint16, start int64) {
	const size = 1 << 20
	dev := &c12Flat{img: make([]byte, start+size)}
	copy(dev.img[start:], c12StaleFatSector(fstype, reserved, 1))
	vp.Assume(dev.img[start+13] != 0) // the old volume was well-formed: sectors per cluster >= 1
	uuid.SetRand(&c12Rand{})
	vp.Unwind(5000)
	fsys, err := ext4.Create(dev, size, start, 512, &ext4.Params{SectorsPerBlock: 2, BlocksPerGroup: 256,
		Features: []ext4.FeatureOpt{ext4.WithFeatureHasJournal(false), ext4.WithFeatureReservedGDTBlocksForExpansion(false)}})
	vp.Assert(err == nil, "ext4.Create accepts the range")
	vp.Assert(fsys.Type() == filesystem.TypeExt4, "an ext4 filesystem is created")
	d := &Disk{Backend: dev, Size: start + size, LogicalBlocksize: 512, PhysicalBlocksize: 512, DefaultBlocks: true}
	part := 0
	if start != 0 {
		// the range is partition 1 of an MBR table (the table itself lives in sector 0, outside the range)
		d.Table = &mbr.Table{LogicalSectorSize: 512, PhysicalSectorSize: 512,
			Partitions: []*mbr.Partition{{Index: 1, Type: mbr.Linux, Start: uint32(start / 512), Size: size / 512}}}
		part = 1
		for i := int64(0); i < 512; i++ {
			vp.Assert(dev.img[i] == 0, "nothing is written in front of the range given to ext4.Create")
		}
	}
	n := dev.writes
	got, err := d.GetFilesystem(part)
	vp.Assert(dev.writes == n, "probing does not write")
	vp.Cover("freshly opened disk probed")
	if err != nil && !vp.Symbolic() {
		println("GETFS ERROR:", err.Error())
	}
	vp.Assert(err == nil, "GetFilesystem finds a filesystem where ext4 was created")
	if err != nil {
		return
	}
	vp.Assert(got.Type() == filesystem.TypeExt4, "a range on which ext4 was created is reported as ext4, not as the FAT volume it held before")
}

func VP_C12_ext4_over_stale_fat12() {
	if vp.Thorough() {
		c12Ext4OverFat("FAT12   ", 1, 0)
	} else {
		vp.Cover("thorough tier only")
	}
}
func VP_C12_ext4_over_stale_fat16() { c12Ext4OverFat("FAT16   ", 4, 0) }

// the same inside a partition (range at 1 MiB of a 2 MiB device)
func VP_C12_ext4_over_stale_fat16_partition() { c12Ext4OverFat("FAT16   ", 4, 1<<20) }

package disk

import (
	"github.com/diskfs/go-diskfs/backend/file"
	"github.com/diskfs/go-diskfs/internal/vp"
	"github.com/diskfs/go-diskfs/internal/vp/vpdev"
	"github.com/diskfs/go-diskfs/partition/gpt"
)

// c11GptDamaged: a GPT disk whose primary header is damaged (byte `pos` of it is inverted) while the backup is intact, opened with an arbitrary read-only
// flag: reading the partition table (which falls back to the backup copy) and the partitions
// never writes to the image - in particular it does not "repair" the primary behind the caller's back.
func c11GptDamaged(pos int) {
	const size = 128 * 512
	src := vpdev.NewMemDev("img", size)
	t := &gpt.Table{LogicalSectorSize: 512, PhysicalSectorSize: 512, ProtectiveMBR: true,
		GUID: "43E51892-3273-42F7-BCDA-B43B80CDFC48",
		Partitions: []*gpt.Partition{{Index: 1, Start: 34, End: 60, Type: gpt.LinuxFilesystem, Name: "data", GUID: "5CA3360B-5DE6-4FCF-B4CE-419CEE433B51"}}}
	err := t.Write(src, size)
	vp.Assert(err == nil, "table written")
	// damage one byte of the primary header (sector 1, bytes 0..91)
	x := byte(0xff) // which byte is damaged is a case split: signature, header CRC, array CRC
	old := src.ByteAt(512 + int64(pos))
	src.Log = append(src.Log, vpdev.WRec{Off: 512 + int64(pos), Len: 1, Data: []byte{old ^ x}})
	img := &c11ReadImg{MemDev: src}
	ro := vp.Bool("readOnly")
	d := &Disk{Backend: file.New(img, ro), Size: size, LogicalBlocksize: 512, PhysicalBlocksize: 512, DefaultBlocks: true}
	vp.Unwind(140)
	pt, err := d.GetPartitionTable()
	if err == nil {
		vp.Assert(pt.Type() == "gpt", "the backup GPT is used")
		_, _ = d.GetPartition(1)
		w := &vpdev.ChunkWriter{}
		_, _ = d.ReadPartitionContents(1, w)
		vp.Cover("table recovered from the backup copy")
	} else {
		vp.Cover("table not readable")
	}
	vp.Assert(img.writes == 0, "reading the partition table wrote nothing")
}

func VP_C11_disk_readers_gpt_damaged_signature() { c11GptDamaged(0) }
func VP_C11_disk_readers_gpt_damaged_hdrcrc()    { c11GptDamaged(16) }
func VP_C11_disk_readers_gpt_damaged_arraycrc()  { c11GptDamaged(88) }

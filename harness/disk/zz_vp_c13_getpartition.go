package disk

import (
	"errors"
	"fmt"
	"io"

	"github.com/diskfs/go-diskfs/internal/vp"
	"github.com/diskfs/go-diskfs/internal/vp/vpdev"
	"github.com/diskfs/go-diskfs/partition"
	"github.com/diskfs/go-diskfs/partition/gpt"
	"github.com/diskfs/go-diskfs/partition/mbr"
)

// C13 at the level of disk.Disk: GetPartition(n), ReadPartitionContents(n, w) and
// WritePartitionContents(n, r) address a partition by its NUMBER (part.Partition.GetIndex), not by
// its position in the table's slice. The tables have sparse / unordered numbers, every partition has
// its own arbitrary start LBA (and, for GetPartition, arbitrary size); EVERY request number n in
// [-2,130] and a few far-away ones are tried (the request number is case-split in plain Go: it may be
// used as a slice index or map key by the code under test):
//
//	no partition has number n  -> an error, nothing read, nothing written;
//	partition P has number n   -> the operation acts on [P.start*512, (P.start+P.sectors)*512) - of P, not of
//	                              the partition at slice position n or n-1.

func c13Requests() []int {
	var ns []int
	for n := -2; n <= 130; n++ {
		ns = append(ns, n)
	}
	return append(ns, -1000, 255, 256, 1<<31-1, -1<<31)
}

// c13SparseTable builds a table with the given partition numbers (slice order = order given);
// partition i starts at the arbitrary LBA p<i>.start and has p<i>.sectors sectors (arbitrary up to
// maxSectors, or exactly i+1 if maxSectors is 0). It returns the table and the expected byte range for
// request n (found = some partition has number n).
func c13SparseTable(useGPT bool, idx []int, n int, maxSectors uint64) (tbl partition.Table, found bool, wantStart, wantSize int64) {
	var gp []*gpt.Partition
	var mp []*mbr.Partition
	for i, ix := range idx {
		s := vp.U64(fmt.Sprintf("p%d.start", i))
		vp.Assume(s >= 34)
		vp.Assume(s <= 1<<31)
		c := uint64(i + 1)
		if maxSectors > 0 {
			c = vp.U64(fmt.Sprintf("p%d.sectors", i))
			vp.Assume(c >= 1)
			vp.Assume(c <= maxSectors)
		}
		if useGPT {
			gp = append(gp, &gpt.Partition{Index: ix, Start: s, End: s + c - 1, Size: c * 512, Type: gpt.LinuxFilesystem,
				Name: fmt.Sprintf("part%d", ix), GUID: fmt.Sprintf("5CA3360B-5DE6-4FCF-B4CE-419CEE433B%02X", ix)})
		} else {
			mp = append(mp, &mbr.Partition{Index: ix, Type: mbr.Linux, Start: uint32(s), Size: uint32(c)})
		}
		if n == ix {
			found = true
			wantStart = int64(s) * 512
			wantSize = int64(c) * 512
		}
	}
	if useGPT {
		return &gpt.Table{LogicalSectorSize: 512, PhysicalSectorSize: 512, ProtectiveMBR: true,
			GUID: "43E51892-3273-42F7-BCDA-B43B80CDFC48", Partitions: gp}, found, wantStart, wantSize
	}
	return &mbr.Table{LogicalSectorSize: 512, PhysicalSectorSize: 512, Partitions: mp}, found, wantStart, wantSize
}

// c13SparseGet: GetPartition(n).
func c13SparseGet(useGPT bool, idx []int) {
	for _, n := range c13Requests() {
		tbl, found, wantStart, wantSize := c13SparseTable(useGPT, idx, n, 1<<31)
		dev := vpdev.NewMemDev("img", -1)
		dev.NoWrites = true
		d := &Disk{Backend: dev, Size: 1 << 42, LogicalBlocksize: 512, PhysicalBlocksize: 512, DefaultBlocks: true, Table: tbl}
		vp.NoPanic()
		p, err := d.GetPartition(n)
		vp.AllowPanic()
		if !found {
			vp.Assert(err != nil, "GetPartition(n) fails if no partition has number n")
			var ipe *InvalidPartitionError
			vp.Assert(errors.As(err, &ipe), "no such partition: InvalidPartitionError")
			vp.Cover("no partition with that number")
			continue
		}
		vp.Assert(err == nil, "GetPartition(n) succeeds if a partition has number n")
		if err != nil {
			continue
		}
		vp.Assert(p.GetIndex() == n, "the partition returned has the number asked for")
		vp.Assert(p.GetStart() == wantStart, "the partition returned starts where partition number n starts")
		vp.Assert(p.GetSize() == wantSize, "the partition returned has the size of partition number n")
		vp.Cover("partition found by number")
	}
}

func VP_C13_disk_getpartition_sparse_get_gpt_134()   { c13SparseGet(true, []int{1, 3, 4}) }
func VP_C13_disk_getpartition_sparse_get_gpt_52128() { c13SparseGet(true, []int{5, 2, 128}) }
func VP_C13_disk_getpartition_sparse_get_mbr_314()   { c13SparseGet(false, []int{3, 1, 4}) }
func VP_C13_disk_getpartition_sparse_get_mbr_42()    { c13SparseGet(false, []int{4, 2}) }

// c13RecDev records the offsets of ReadAt calls (that the bytes read at these offsets reach the writer
// unchanged is the partition-level claim checked by C13.gpt_read_data / C13.mbr_read_data).
type c13RecDev struct {
	*vpdev.MemDev
	calls  int
	first  int64
	next   int64
	contig bool
}

func (d *c13RecDev) ReadAt(p []byte, off int64) (int, error) {
	if d.calls == 0 {
		d.first = off
		d.contig = true
	} else if off != d.next {
		d.contig = false
	}
	d.calls++
	d.next = off + int64(len(p))
	return d.MemDev.ReadAt(p, off)
}

// c13SparseRead: ReadPartitionContents(n, w) delivers exactly the byte range of partition number n
// (partition i has i+1 sectors, arbitrary start).
func c13SparseRead(useGPT bool, idx []int) {
	for _, n := range c13Requests() {
		tbl, found, wantStart, wantSize := c13SparseTable(useGPT, idx, n, 0)
		dev := &c13RecDev{MemDev: vpdev.NewMemDev("img", -1)}
		dev.NoWrites = true
		d := &Disk{Backend: dev, Size: 1 << 42, LogicalBlocksize: 512, PhysicalBlocksize: 512, DefaultBlocks: true, Table: tbl}
		w := &vpdev.ChunkWriter{}
		vp.NoPanic()
		got, err := d.ReadPartitionContents(n, w)
		vp.AllowPanic()
		if !found {
			vp.Assert(err != nil, "ReadPartitionContents(n) fails if no partition has number n")
			vp.Assert(dev.calls == 0, "no such partition: nothing is read from the image")
			vp.Assert(len(w.Data) == 0, "no such partition: nothing is delivered")
			vp.Cover("no partition with that number")
			continue
		}
		vp.Assert(err == nil, "ReadPartitionContents(n) succeeds if a partition has number n")
		vp.Assert(got == wantSize, "the number of bytes read is the size of partition number n")
		vp.Assert(int64(len(w.Data)) == wantSize, "the writer receives exactly the size of partition number n")
		vp.Assert(dev.calls > 0, "the image is read")
		vp.Assert(dev.first == wantStart, "the first read is at the start of partition number n")
		vp.Assert(dev.contig, "reads are contiguous")
		vp.Assert(dev.next <= wantStart+wantSize, "no read beyond the end of partition number n")
		vp.Cover("partition contents read by number")
	}
}

func VP_C13_disk_getpartition_sparse_read_gpt_134()   { c13SparseRead(true, []int{1, 3, 4}) }
func VP_C13_disk_getpartition_sparse_read_gpt_52128() { c13SparseRead(true, []int{5, 2, 128}) }
func VP_C13_disk_getpartition_sparse_read_mbr_314()   { c13SparseRead(false, []int{3, 1, 4}) }

// c13Supply is a reader that delivers exactly n bytes and then io.EOF (what a reader does with a
// partition-sized file); reader misbehaviour is the partition-level claim C13.gpt_write_* / mbr_write_*.
type c13Supply struct {
	left  int64
	calls int
}

func (r *c13Supply) Read(p []byte) (int, error) {
	r.calls++
	if r.left == 0 {
		return 0, io.EOF
	}
	n := int64(len(p))
	if n > r.left {
		n = r.left
	}
	r.left -= n
	return int(n), nil
}

// c13SparseWrite: WritePartitionContents(n, r) with a reader supplying exactly the size of partition
// number n (512 bytes if there is none) writes only into partition number n and fills it; the sizes
// differ from partition to partition (partition i of the slice has i+1 sectors, arbitrary start), so
// a write addressed to another partition is refused, short, or outside the allowed range.
func c13SparseWrite(useGPT bool, idx []int) {
	for _, n := range c13Requests() {
		tbl, found, wantStart, wantSize := c13SparseTable(useGPT, idx, n, 0)
		dev := vpdev.NewMemDev("img", -1)
		dev.NoData = true
		// every WriteAt must lie inside partition number n (empty range if there is none)
		dev.Range, dev.Lo, dev.Hi = true, wantStart, wantStart+wantSize
		d := &Disk{Backend: dev, Size: 1 << 42, LogicalBlocksize: 512, PhysicalBlocksize: 512, DefaultBlocks: true, Table: tbl}
		supply := wantSize
		if !found {
			supply = 512
		}
		rd := &c13Supply{left: supply}
		vp.NoPanic()
		got, err := d.WritePartitionContents(n, rd)
		vp.AllowPanic()
		if !found {
			vp.Assert(err != nil, "no partition has number n: WritePartitionContents fails")
			vp.Assert(len(dev.Log) == 0, "no partition has number n: nothing is written")
			vp.Assert(rd.calls == 0, "no partition has number n: the reader is not consumed")
			vp.Cover("no partition with that number")
			continue
		}
		vp.Assert(err == nil, "a reader that supplies exactly the size of partition number n fills it")
		vp.Assert(got == wantSize, "the count returned is the size of partition number n")
		var total int64
		for i := range dev.Log {
			w := dev.Log[i]
			vp.Assert(w.Off == wantStart+total, "chunk lands at the start of partition number n + bytes written so far")
			total += int64(w.Len)
		}
		vp.Assert(total == wantSize, "partition number n was filled completely")
		vp.Cover("partition contents written by number")
	}
}

func VP_C13_disk_getpartition_sparse_write_gpt_134()   { c13SparseWrite(true, []int{1, 3, 4}) }
func VP_C13_disk_getpartition_sparse_write_gpt_52128() { c13SparseWrite(true, []int{5, 2, 128}) }
func VP_C13_disk_getpartition_sparse_write_mbr_314()   { c13SparseWrite(false, []int{3, 1, 4}) }

package disk

import (
	"errors"
	"strings"

	"github.com/diskfs/go-diskfs/filesystem"
	"github.com/diskfs/go-diskfs/filesystem/fat12"
	"github.com/diskfs/go-diskfs/filesystem/fat16"
	"github.com/diskfs/go-diskfs/filesystem/fat32"
	"github.com/diskfs/go-diskfs/internal/vp"
	"github.com/diskfs/go-diskfs/internal/vp/vpdev"
	"github.com/diskfs/go-diskfs/partition"
	"github.com/diskfs/go-diskfs/partition/gpt"
	"github.com/diskfs/go-diskfs/partition/mbr"
)

// ---------------------------------------------------------------------------------------
// C12.blank: a blank range (all zero) - the whole disk, an MBR partition or a GPT partition of
// ANY size at ANY offset - is reported by Disk.GetFilesystem as having no filesystem: the call
// goes through all six readers in probe order and every one of them refuses.
// ---------------------------------------------------------------------------------------

func c12BlankDisk(lbs int64) *Disk {
	dev := vpdev.NewMemDev("disk", -1) // all zero, larger than any range probed
	dev.NoWrites = true
	size := vp.I64("disksize")
	vp.Assume(size >= 0)
	return &Disk{Backend: dev, Size: size, LogicalBlocksize: lbs, PhysicalBlocksize: lbs, DefaultBlocks: vp.Bool("defaultblocks")}
}

func c12AssertNoFS(d *Disk, part int) {
	vp.Unwind(40)
	fs, err := d.GetFilesystem(part)
	vp.Assert(err != nil, "a blank range is reported as having no filesystem")
	vp.Assert(fs == nil, "no filesystem object is returned for a blank range")
	var unk *UnknownFilesystemError
	vp.Assert(errors.As(err, &unk), "the error says: unknown filesystem")
	vp.Cover("blank range probed by all readers")
}

func VP_C12_blank_whole_512()  { c12AssertNoFS(c12BlankDisk(512), 0) }
func VP_C12_blank_whole_4096() { c12AssertNoFS(c12BlankDisk(4096), 0) }

func VP_C12_blank_mbr_partition() {
	d := c12BlankDisk(512)
	d.Table = &mbr.Table{LogicalSectorSize: 512, PhysicalSectorSize: 512, Partitions: []*mbr.Partition{
		{Index: 1, Type: mbr.Linux, Start: 2048, Size: 2048},
		{Index: 2, Type: mbr.Fat32LBA, Start: vp.U32("start"), Size: vp.U32("size")},
	}}
	c12AssertNoFS(d, 2)
}

func c12BlankGpt(lss int) {
	d := c12BlankDisk(int64(lss))
	s, e := vp.U64("start"), vp.U64("end")
	vp.Assume(e >= s)
	vp.Assume(e < 1<<50)
	d.Table = &gpt.Table{LogicalSectorSize: lss, PhysicalSectorSize: lss, Partitions: []*gpt.Partition{
		{Index: 1, Type: gpt.LinuxFilesystem, Start: s, End: e, Size: (e - s + 1) * uint64(lss)},
	}}
	c12AssertNoFS(d, 1)
}

func VP_C12_blank_gpt_partition_512() { c12BlankGpt(512) }
func VP_C12_blank_gpt_partition_4096() {
	if vp.Thorough() {
		c12BlankGpt(4096)
	} else {
		vp.Cover("thorough tier only")
	}
}

// ---------------------------------------------------------------------------------------
// C12.magics (squashfs): a range that starts with a squashfs superblock (magic, version 4.0,
// block size a power of two in 4 KiB..1 MiB with matching block_log; every other byte of the
// sector and of the range arbitrary) is refused by the three FAT readers that GetFilesystem
// probes before squashfs.Read - for any range size and offset.
// ---------------------------------------------------------------------------------------

func VP_C12_magic_squashfs_not_fat() {
	sec := vp.Bytes("sector", 512)
	// squashfs 4.0 superblock (kernel Documentation/filesystems/squashfs.rst): s_magic "hsqs",
	// block_size u32 @12, block_log u16 @22, s_major=4 @28, s_minor=0 @30
	vp.Assume(sec[0] == 'h')
	vp.Assume(sec[1] == 's')
	vp.Assume(sec[2] == 'q')
	vp.Assume(sec[3] == 's')
	bs := uint32(sec[12]) | uint32(sec[13])<<8 | uint32(sec[14])<<16 | uint32(sec[15])<<24
	vp.Assume(bs >= 4096)
	vp.Assume(bs <= 1<<20)
	vp.Assume(bs&(bs-1) == 0)
	vp.Assume(sec[28] == 4)
	vp.Assume(sec[29] == 0)
	vp.Assume(sec[30] == 0)
	vp.Assume(sec[31] == 0)
	dev := vpdev.NewMemDev("disk", -1)
	dev.Image = sec
	dev.UF = true
	dev.NoWrites = true
	size := vp.I64("size")
	vp.Assume(size >= 0)
	lbs := int64(512)
	if vp.Bool("lbs4096") {
		lbs = 4096
	}
	_, e32 := fat32.Read(dev, size, 0, lbs)
	vp.Assert(e32 != nil, "fat32.Read refuses a squashfs superblock")
	_, e16 := fat16.Read(dev, size, 0, lbs)
	vp.Assert(e16 != nil, "fat16.Read refuses a squashfs superblock")
	_, e12 := fat12.Read(dev, size, 0, lbs)
	vp.Assert(e12 != nil, "fat12.Read refuses a squashfs superblock")
	vp.Cover("squashfs superblock probed by the FAT readers")
}

// ---------------------------------------------------------------------------------------
// C12.scenario: complete Create -> fresh Disk -> GetFilesystem for the FAT family at concrete
// sizes right at the cluster-count thresholds (everything the symbolic fat_family harness leaves
// out: FSInfo signatures, FAT copies, SetLabel rewriting the boot sector, root directory label).
// The range previously held arbitrary bytes (stale content) wherever Create does not write.
// ---------------------------------------------------------------------------------------

func c12Scenario(typ filesystem.Type, lbs, size, start int64, label string, useGpt bool) {
	devSize := start + size + 64*lbs // room for a backup GPT behind the partition
	dev := vpdev.NewMemDev("disk", devSize)
	// whole-disk cases: bytes the creator does not write are arbitrary (stale content of whatever
	// was there before); with a partition table the rest of the disk is blank (an arbitrary LBA 1
	// would make the table probe itself the subject, see table_probe_*)
	dev.UF = start == 0
	var tbl partition.Table
	part := 0
	if start > 0 {
		part = 1
		if useGpt {
			s := uint64(start / lbs)
			tbl = &gpt.Table{LogicalSectorSize: int(lbs), PhysicalSectorSize: int(lbs), Partitions: []*gpt.Partition{
				{Index: 1, Type: gpt.MicrosoftBasicData, Start: s, End: s + uint64(size/lbs) - 1, Size: uint64(size), GUID: "5CA3360B-5DE6-4FCF-B4CE-419CEE433B51", Name: "data"},
			}, GUID: "43E51892-3273-42F7-BCDA-B43B80CDFC48", ProtectiveMBR: true}
		} else {
			tbl = &mbr.Table{LogicalSectorSize: 512, PhysicalSectorSize: 512, Partitions: []*mbr.Partition{
				{Index: 1, Type: mbr.Fat16b, Start: uint32(start / 512), Size: uint32(size / 512)},
			}}
		}
	}
	d := &Disk{Backend: dev, Size: devSize, LogicalBlocksize: lbs, PhysicalBlocksize: lbs, DefaultBlocks: true}
	vp.Unwind(70000)
	if tbl != nil {
		err := d.Partition(tbl)
		vp.Assert(err == nil, "the partition table is written")
	}
	fs, err := d.CreateFilesystem(FilesystemSpec{Partition: part, FSType: typ, VolumeLabel: label, Reproducible: true})
	vp.Assert(err == nil, "CreateFilesystem accepts the size")
	vp.Assert(fs.Type() == typ, "the filesystem created has the type asked for")
	// a freshly opened disk: nothing but the bytes
	d2 := &Disk{Backend: dev, Size: devSize, LogicalBlocksize: lbs, PhysicalBlocksize: lbs, DefaultBlocks: true}
	n := len(dev.Log)
	if tbl != nil {
		t2, err := d2.GetPartitionTable()
		vp.Assert(err == nil, "the freshly opened disk has a partition table")
		vp.Assert(t2.Type() == tbl.Type(), "the table is reported as the kind that was written")
	}
	got, err := d2.GetFilesystem(part)
	vp.Cover("freshly opened disk probed")
	known := useGpt && lbs != 512 // KF-C12-4
	vp.AssertUnless("KF-C12-4", known, err == nil, "GetFilesystem finds a filesystem where one was created")
	if err != nil {
		vp.Cover("filesystem not found on the freshly opened disk")
		return
	}
	vp.Assert(got.Type() == typ, "GetFilesystem reports the type that was created")
	if label != "" {
		vp.Assert(strings.TrimRight(got.Label(), " ") == label, "the label survives")
	}
	vp.Assert(len(dev.Log) == n, "probing does not write")
	vp.Cover("created and recognised")
}

// 8240 sectors: FAT16 with exactly 4085 clusters (the smallest FAT16)
func VP_C12_scenario_fat16_4085() {
	c12Scenario(filesystem.TypeFat16, 512, 8240*512, 0, "VOL16", false)
}
func VP_C12_scenario_fat16_4085_mbrpart() {
	c12Scenario(filesystem.TypeFat16, 512, 8241*512, 1<<20, "VOL16", false)
}
func VP_C12_scenario_fat12_small() {
	c12Scenario(filesystem.TypeFat12, 512, 64*1024, 0, "VOL12", false)
}
func VP_C12_scenario_fat12_floppy_gptpart() {
	c12Scenario(filesystem.TypeFat12, 512, 1474560, 1<<20, "FLOPPY", true)
}
func VP_C12_scenario_fat32_4k_whole() {
	c12Scenario(filesystem.TypeFat32, 4096, 256*1024, 0, "VOL4K", false)
}
func VP_C12_scenario_fat32_small() {
	c12Scenario(filesystem.TypeFat32, 512, 128*1024, 0, "VOL32", false)
}
func VP_C12_scenario_fat32_4k_gptpart() {
	if vp.Thorough() { // needs more than the quick tier's step budget
		c12Scenario(filesystem.TypeFat32, 4096, 256*1024, 1<<20, "", true)
	} else {
		vp.Cover("thorough tier only")
	}
}

package disk

import (
	"os"
	"time"

	"github.com/diskfs/go-diskfs/backend"
	"github.com/diskfs/go-diskfs/filesystem"
	"github.com/diskfs/go-diskfs/internal/vp"
	"github.com/diskfs/go-diskfs/internal/vp/vpdev"
	"github.com/diskfs/go-diskfs/partition/mbr"
)

// C14 (plumbing): Disk.CreateFilesystem with FilesystemSpec.Reproducible = true on a partition whose
// start LBA is arbitrary: the flag reaches fatNN.Create (volume id not taken from the clock), and two
// executions on two disks whose partition sits at two different arbitrary places give the same
// partition-relative writes byte for byte.

// c14Part is a partition-sized window of a disk: accesses are recorded relative to the partition start.
type c14Part struct {
	*vpdev.MemDev
	start int64
	img   []byte
	spill bool
}

func (d *c14Part) Writable() (backend.WritableFile, error) { return d, nil }
func (d *c14Part) WriteAt(p []byte, off int64) (int, error) {
	rel := off - d.start
	vp.Assert(rel >= 0, "no write before the start of the partition")
	if rel >= 0 && rel+int64(len(p)) <= int64(len(d.img)) {
		copy(d.img[rel:], p)
	} else {
		d.spill = true
	}
	return d.MemDev.WriteAt(p, rel)
}
func (d *c14Part) ReadAt(p []byte, off int64) (int, error) {
	rel := off - d.start
	vp.Assert(rel >= 0, "no read before the start of the partition")
	if !d.spill && rel >= 0 && rel+int64(len(p)) <= int64(len(d.img)) {
		copy(p, d.img[rel:rel+int64(len(p))])
		return len(p), nil
	}
	return d.MemDev.ReadAt(p, rel)
}

// c14DiskWith returns a disk with one MBR partition of `sectors` sectors at the arbitrary LBA <name>.lba.
func c14DiskWith(name string, sectors uint32) (*Disk, *c14Part) {
	lba := vp.U32(name + ".lba")
	vp.Assume(lba >= 1)
	dev := &c14Part{MemDev: vpdev.NewMemDev(name, -1), start: int64(lba) * 512, img: make([]byte, 64<<10)}
	tbl := &mbr.Table{LogicalSectorSize: 512, PhysicalSectorSize: 512, Partitions: []*mbr.Partition{
		{Index: 1, Type: mbr.Fat32LBA, Start: lba, Size: sectors},
	}}
	return &Disk{Backend: dev, Size: 1 << 42, LogicalBlocksize: 512, PhysicalBlocksize: 512, DefaultBlocks: true, Table: tbl}, dev
}

func c14Plumbing(fstype filesystem.Type, sectors uint32) {
	os.Setenv("SOURCE_DATE_EPOCH", "1700000"+string([]byte{'0' + vp.U8("epoch.digit")%10}))
	spec := FilesystemSpec{Partition: 1, FSType: fstype, VolumeLabel: "REPRO", Reproducible: true}
	da, pa := c14DiskWith("A", sectors)
	db, pb := c14DiskWith("B", sectors)
	_, err := da.CreateFilesystem(spec)
	vp.Assert(err == nil, "CreateFilesystem accepted (execution A)")
	if !vp.Symbolic() {
		time.Sleep(2100 * time.Millisecond) // the wall clock really moves between the two native executions
	}
	_, err = db.CreateFilesystem(spec)
	vp.Assert(err == nil, "CreateFilesystem accepted (execution B)")
	vp.Assert(len(pa.Log) >= 5, "the filesystem was written")
	// the first write is the boot sector: the volume serial number is the reproducible one (0)
	boot := pa.Log[0]
	vp.Assert(boot.Off == 0, "the boot sector is written at the start of the partition")
	so := 39 // FAT12/16: BS_VolID
	if fstype == filesystem.TypeFat32 {
		so = 67
	}
	vp.Assert(boot.Data[so]|boot.Data[so+1]|boot.Data[so+2]|boot.Data[so+3] == 0, "Reproducible reaches Create: the volume id is not derived from the clock")
	vp.Assert(len(pa.Log) == len(pb.Log), "both executions issue the same number of writes")
	for i := range pa.Log {
		ra, rb := pa.Log[i], pb.Log[i]
		vp.Assert(ra.Off == rb.Off, "same partition-relative write offset in both executions")
		vp.Assert(len(ra.Data) == len(rb.Data), "same write length in both executions")
		var diff byte
		for j := range ra.Data {
			diff |= ra.Data[j] ^ rb.Data[j]
		}
		vp.Assert(diff == 0, "same bytes written in both executions (no dependence on clock or partition start)")
	}
	vp.Assert(vp.NondetSources() == 0, "no wall clock, random source or map iteration order is consulted")
	vp.Cover("filesystem created twice through Disk.CreateFilesystem")
}

func VP_C14_disk_reproducible_fat12() { c14Plumbing(filesystem.TypeFat12, 2048) }
func VP_C14_disk_reproducible_fat16() { c14Plumbing(filesystem.TypeFat16, 10240) }
func VP_C14_disk_reproducible_fat32() { c14Plumbing(filesystem.TypeFat32, 4096) }

// VP_C14_disk_detector_volid is NOT part of the claim (Reproducible is false here): it shows that the
// checks above are not blind - without the flag the volume id comes from the clock and the engine's
// nondeterminism log sees it (otherwise this harness has no reachable Cover and is reported as vacuous).
func VP_C14_disk_detector_volid() {
	os.Setenv("SOURCE_DATE_EPOCH", "1700000000")
	d, _ := c14DiskWith("A", 2048)
	_, err := d.CreateFilesystem(FilesystemSpec{Partition: 1, FSType: filesystem.TypeFat12, VolumeLabel: "X"})
	if err == nil {
		if vp.NondetSources() > 0 {
			vp.Cover("Reproducible=false: volume id drawn from the wall clock and logged")
		}
	}
}

package disk

import (
	"os"

	"github.com/diskfs/go-diskfs/backend/file"
	"github.com/diskfs/go-diskfs/filesystem"
	"github.com/diskfs/go-diskfs/internal/vp"
	"github.com/diskfs/go-diskfs/internal/vp/vphost"
	"github.com/diskfs/go-diskfs/partition/mbr"
)

// C11.osfile_*: the backend is file.New over a real *os.File that was opened O_RDWR, with the backend's
// read-only flag set - so the flag is the ONLY thing standing between the library and the image (the
// operating system would accept the writes, also through backend.Sys()). The host file is served by the
// vphost model in the engine and is a real temporary file natively. Every mutator must fail and leave
// every byte of the file as it was.

// one image file per harness (native replays of different harnesses run in parallel)
var c11osPath = "/tmp/vp_c11_osfile/disk.img"

func c11osImage(size int) []byte {
	img := make([]byte, size)
	// a recognisable old boot sector / partition table area and a few probes further in
	for i := 0; i < 1536; i++ {
		img[i] = byte(i*7 + 3)
	}
	img[510], img[511] = 0x55, 0xaa
	for _, o := range []int{2048, 4096, 65536, size - 512, size - 1} {
		img[o] = 0x5a
	}
	return img
}

func c11osUnchanged(want []byte) {
	got, err := os.ReadFile(c11osPath)
	vp.Assert(err == nil, "image file still readable")
	vp.Assert(len(got) == len(want), "image size unchanged")
	if len(got) != len(want) {
		return
	}
	same := true
	for i := range want {
		if got[i] != want[i] {
			same = false
		}
	}
	vp.Assert(same, "read-only backend over a writable *os.File: no byte of the image changed")
}

func c11osDisk(tag string, size int) (*Disk, []byte, *os.File) {
	vp.HostFS()
	c11osPath = "/tmp/vp_c11_osfile/" + tag + ".img"
	vp.Assert(vphost.MkdirAll("/tmp/vp_c11_osfile", 0o755) == nil, "scratch directory")
	img := c11osImage(size)
	vp.Assert(vphost.WriteFile(c11osPath, img, 0o644) == nil, "image file")
	f, err := os.OpenFile(c11osPath, os.O_RDWR, 0)
	vp.Assert(err == nil, "image opened read-write by the operating system")
	b := file.New(f, true)
	return &Disk{Backend: b, Size: int64(size), LogicalBlocksize: 512, PhysicalBlocksize: 512, DefaultBlocks: true}, img, f
}

func c11osCreateFS(tag string, t filesystem.Type, size int, onPartition bool) {
	d, img, f := c11osDisk(tag, size)
	pn := 0
	if onPartition {
		pn = 1
		d.Table = &mbr.Table{LogicalSectorSize: 512, PhysicalSectorSize: 512, Partitions: []*mbr.Partition{{
			Index: 1, Type: mbr.Linux, Start: 8, Size: uint32(size/512) - 8}}}
	}
	vp.Unwind(5000)
	vp.NoPanic()
	_, err := d.CreateFilesystem(FilesystemSpec{Partition: pn, FSType: t, VolumeLabel: "LABEL", Reproducible: true})
	vp.AllowPanic()
	vp.Assert(err != nil, "read-only disk: CreateFilesystem returns an error")
	f.Close()
	c11osUnchanged(img)
	vp.Cover("CreateFilesystem refused, image untouched")
}

func VP_C11_osfile_createfs_ext4()      { c11osCreateFS("ext4", filesystem.TypeExt4, 1<<20, false) }
func VP_C11_osfile_createfs_ext4_part() { c11osCreateFS("ext4p", filesystem.TypeExt4, 1<<20, true) }
func VP_C11_osfile_createfs_fat32()     { c11osCreateFS("fat32", filesystem.TypeFat32, 1<<20, false) }
func VP_C11_osfile_createfs_fat16()     { c11osCreateFS("fat16", filesystem.TypeFat16, 1<<20, true) }
func VP_C11_osfile_createfs_fat12()     { c11osCreateFS("fat12", filesystem.TypeFat12, 1<<20, false) }

// VP_C11_osfile_partition: Disk.Partition with an MBR table.
func VP_C11_osfile_partition() {
	d, img, f := c11osDisk("part", 1<<20)
	vp.NoPanic()
	err := d.Partition(&mbr.Table{LogicalSectorSize: 512, PhysicalSectorSize: 512, Partitions: []*mbr.Partition{{
		Type: mbr.Linux, Start: vp.U32("p.start"), Size: vp.U32("p.size")}}})
	vp.AllowPanic()
	vp.Assert(err != nil, "read-only disk: Partition returns an error")
	f.Close()
	c11osUnchanged(img)
	vp.Cover("Partition refused, image untouched")
}

package disk

import (
	"github.com/diskfs/go-diskfs/backend"
	"github.com/diskfs/go-diskfs/filesystem/fat12"
	"github.com/diskfs/go-diskfs/filesystem/fat16"
	"github.com/diskfs/go-diskfs/filesystem/fat32"
	"github.com/diskfs/go-diskfs/internal/vp"
	"github.com/diskfs/go-diskfs/internal/vp/vpdev"
)

// ---------------------------------------------------------------------------------------
// C12.fat_family: for EVERY size (and start offset) that fatX.Create accepts, the boot sector
// it writes is classified as X by the probe sequence of Disk.GetFilesystem (fat32.Read, then
// fat16.Read, then fat12.Read): every reader probed before X refuses it on the boot sector
// alone (everything behind the boot sector may be stale bytes of an earlier filesystem), and
// reader X accepts it and goes on to read its FAT / FSInfo sector at the place the BPB names.
// This is the 4085 / 65525 cluster-count question for all sizes at once.
// ---------------------------------------------------------------------------------------

func c12le16(p []byte, o int) int64 { return int64(p[o]) | int64(p[o+1])<<8 }
func c12le32(p []byte, o int) int64 {
	return int64(p[o]) | int64(p[o+1])<<8 | int64(p[o+2])<<16 | int64(p[o+3])<<24
}

// c12ProbeDev serves one boot sector at `start` (followed by arbitrary stale bytes) and
// records the first read a filesystem reader issues after it has looked at the boot sector;
// that read fails, so that the reader returns without walking a FAT of symbolic length.
type c12ProbeDev struct {
	vpdev.MemDev
	start   int64
	boot    []byte
	reads   int
	later   int   // reads after the boot-sector read
	off2    int64 // offset and length of the first later read
	len2    int
	offBoot bool // the boot-sector read was at `start`
}

func (d *c12ProbeDev) reset() { d.reads, d.later, d.off2, d.len2, d.offBoot = 0, 0, 0, 0, false }

func (d *c12ProbeDev) ReadAt(p []byte, off int64) (int, error) {
	d.reads++
	if d.reads == 1 {
		d.offBoot = off == d.start
		n := copy(p, d.boot)
		if n < len(p) {
			vp.Fill(p[n:], "stale") // whatever followed the boot sector before
		}
		return len(p), nil
	}
	d.later++
	if d.later == 1 {
		d.off2, d.len2 = off, len(p)
	}
	return 0, vpdev.ErrOther
}

// c12Classify runs the three FAT readers in GetFilesystem's order on the boot sector `boot`
// written by fatX.Create(size, start, bps) and checks the classification.
func c12Classify(x int, boot []byte, size, start, bps int64) {
	rd := &c12ProbeDev{start: start, boot: boot}
	rd.Size = -1

	// independent parse of the BPB (Microsoft FAT specification, section 3)
	bytesPerSec := c12le16(boot, 11)
	spc := int64(boot[13])
	reserved := c12le16(boot, 14)
	nfats := int64(boot[16])
	rootEnt := c12le16(boot, 17)
	ts16 := c12le16(boot, 19)
	spf16 := c12le16(boot, 22)
	ts32 := c12le32(boot, 32)
	fsinfo := c12le16(boot, 48)

	// 1. fat32.Read is probed first
	_, _ = fat32.Read(rd, size, start, bps)
	if x == 32 {
		vp.Assert(rd.reads >= 1, "fat32.Read looks at the boot sector of a volume fat32.Create accepted")
		vp.Assert(rd.offBoot, "fat32.Read reads the boot sector at the start of the range")
		vp.Assert(rd.later >= 1, "fat32.Read accepts the boot sector fat32.Create wrote")
		vp.Assert(rd.off2 == start+fsinfo*bytesPerSec, "fat32.Read goes on to the FSInfo sector named by the BPB")
		vp.Cover("FAT32 boot sector recognised by fat32.Read")
		return
	}
	vp.Assert(rd.later == 0, "fat32.Read refuses a FAT12/FAT16 boot sector (whatever stale bytes follow it)")

	// what the volume is by the specification's only criterion, the count of clusters
	total := ts16
	if ts16 == 0 {
		total = ts32
	}
	vp.Assert(bytesPerSec == 512, "FAT12/FAT16 volumes of this library have 512-byte sectors")
	rootSecs := (rootEnt*32 + 511) >> 9
	dataSecs := total - (reserved + nfats*spf16 + rootSecs)
	vp.Assert(dataSecs >= 0, "boot sector, FATs and root directory fit in the recorded volume (the cluster count is defined)")
	// clusters = dataSecs / spc; spc must be a power of two, so divide by shifting (cheap for the solver)
	clusters := int64(-1)
	for k := uint(0); k < 8; k++ {
		clusters = vp.IteI64(spc == 1<<k, dataSecs>>k, clusters)
	}
	vp.Assert(clusters >= 0, "sectors per cluster is a power of two in 1..128")
	vp.Assert(total<<9 <= size, "the recorded volume fits the range")

	// 2. fat16.Read
	rd.reset()
	_, _ = fat16.Read(rd, size, start, bps)
	if x == 16 {
		vp.Assert(clusters >= 4085, "a volume fat16.Create accepted has at least 4085 clusters")
		vp.Assert(clusters < 65525, "a volume fat16.Create accepted has fewer than 65525 clusters")
		vp.Assert(rd.offBoot, "fat16.Read reads the boot sector at the start of the range")
		vp.Assert(rd.later >= 1, "fat16.Read accepts the boot sector fat16.Create wrote")
		vp.Assert(rd.off2 == start+reserved*bytesPerSec, "fat16.Read goes on to the first FAT")
		vp.Assert(int64(rd.len2) == spf16*bytesPerSec, "fat16.Read reads one whole FAT")
		vp.Cover("FAT16 boot sector recognised by fat16.Read")
		return
	}
	vp.Assert(clusters < 4085, "a volume fat12.Create accepted has fewer than 4085 clusters")
	vp.Assert(rd.later == 0, "fat16.Read refuses a FAT12 boot sector")

	// 3. fat12.Read
	rd.reset()
	_, _ = fat12.Read(rd, size, start, bps)
	vp.Assert(rd.offBoot, "fat12.Read reads the boot sector at the start of the range")
	vp.Assert(rd.later >= 1, "fat12.Read accepts the boot sector fat12.Create wrote")
	vp.Assert(rd.off2 == start+reserved*bytesPerSec, "fat12.Read goes on to the first FAT")
	vp.Assert(int64(rd.len2) == spf16*bytesPerSec, "fat12.Read reads one whole FAT")
	vp.Cover("FAT12 boot sector recognised by fat12.Read")
}

// c12CreateDev intercepts the first write of fatX.Create (the boot sector), classifies it and
// ends the run there.
type c12CreateDev struct {
	*vpdev.MemDev
	x                int
	size, start, bps int64
}

func (d *c12CreateDev) Writable() (backend.WritableFile, error) { return d, nil }

func (d *c12CreateDev) WriteAt(p []byte, off int64) (int, error) {
	vp.Assert(off == d.start, "the boot sector is the first thing written, at the start of the range")
	vp.Assert(len(p) >= 512, "at least one 512-byte sector is written")
	boot := make([]byte, len(p))
	copy(boot, p)
	c12Classify(d.x, boot, d.size, d.start, d.bps)
	vp.Stop("boot sector classified")
	return len(p), nil
}

func c12Family(x int, bps, lo, hi int64) {
	size := vp.I64("size")
	start := vp.I64("start")
	vp.Assume(size >= lo)
	vp.Assume(size <= hi)
	vp.Assume(start >= 0)
	vp.Assume(start <= 1<<44)
	vp.SparseAlloc(true)
	dev := &c12CreateDev{MemDev: vpdev.NewMemDev("disk", -1), x: x, size: size, start: start, bps: bps}
	var err error
	switch x {
	case 12:
		_, err = fat12.Create(dev, size, start, bps, "LABEL", true)
	case 16:
		_, err = fat16.Create(dev, size, start, bps, "LABEL", true)
	default:
		_, err = fat32.Create(dev, size, start, bps, "LABEL", true)
	}
	if err != nil {
		vp.Cover("Create refuses the size")
		return
	}
	vp.Assert(false, "Create returned without writing a boot sector")
}

// One harness per row of each Create's cluster-size table, so that sectors-per-cluster is a
// constant in every query; together the rows cover every size from 0 to beyond the type's maximum.
const (
	c12MB = int64(1) << 20
	c12GB = int64(1) << 30
)

func VP_C12_fat_family_12_a() { c12Family(12, 512, 0, 2*c12MB) }
func VP_C12_fat_family_12_b() { c12Family(12, 512, 2*c12MB+1, 4*c12MB) }
func VP_C12_fat_family_12_c() { c12Family(12, 512, 4*c12MB+1, 8*c12MB-1) }
func VP_C12_fat_family_12_d() { c12Family(12, 512, 8*c12MB, 16*c12MB) }
func VP_C12_fat_family_12_e() { c12Family(12, 512, 16*c12MB+1, 32*c12MB) }
func VP_C12_fat_family_12_f() { c12Family(12, 512, 32*c12MB+1, 64*c12MB) }
func VP_C12_fat_family_12_g() { c12Family(12, 512, 64*c12MB+1, fat12.Fat12MaxSize+512) }

func VP_C12_fat_family_16_a() { c12Family(16, 512, 0, 32*c12MB) }
func VP_C12_fat_family_16_b() { c12Family(16, 512, 32*c12MB+1, 128*c12MB) }
func VP_C12_fat_family_16_c() { c12Family(16, 512, 128*c12MB+1, 256*c12MB) }
func VP_C12_fat_family_16_d() { c12Family(16, 512, 256*c12MB+1, 512*c12MB) }
func VP_C12_fat_family_16_e() { c12Family(16, 512, 512*c12MB+1, c12GB) }
func VP_C12_fat_family_16_f() { c12Family(16, 512, c12GB+1, fat12.Fat16MaxSize+512) }

func VP_C12_fat_family_32_512_a()  { c12Family(32, 512, 0, 260*c12MB) }
func VP_C12_fat_family_32_512_b()  { c12Family(32, 512, 260*c12MB+1, 8*c12GB) }
func VP_C12_fat_family_32_512_c()  { c12Family(32, 512, 8*c12GB+1, 16*c12GB) }
func VP_C12_fat_family_32_512_d()  { c12Family(32, 512, 16*c12GB+1, 32*c12GB) }
func VP_C12_fat_family_32_512_e()  { c12Family(32, 512, 32*c12GB+1, fat32.Fat32MaxSize+512) }
func VP_C12_fat_family_32_4096_a() { c12Family(32, 4096, 0, 8*c12GB) }
func VP_C12_fat_family_32_4096_b() { c12Family(32, 4096, 8*c12GB+1, fat32.Fat32MaxSize+4096) }

package sync

import (
	"io"
	"io/fs"
	"time"

	"github.com/diskfs/go-diskfs/internal/vp"
)

// c16SizeInfo: a FileInfo whose Size() is whatever the harness says (the copy only uses it to
// choose between the read-all and the streaming path).
type c16SizeInfo struct {
	c16Info
	size int64
}

func (i c16SizeInfo) Size() int64        { return i.size }
func (i c16SizeInfo) ModTime() time.Time { return time.Time{} }

var _ fs.FileInfo = c16SizeInfo{}

// c16CopyOnePath: copyOneFile from a source file with arbitrary length/bytes/read piece sizes into a
// destination whose writes may be short. info.Size() is an arbitrary int64, so both the read-all
// path (<= 64 MiB) and the streaming path (> 64 MiB) are explored with the same small contents.
// Oracle: nil => the destination file holds exactly the source's bytes, in order.
//
//	no injected error, every write makes progress (streaming) / is complete (read-all) => nil.
//
// which: 0 = info.Size() arbitrary (both paths), 1 = read-all path only, 2 = streaming path only
func c16CopyOnePath(chunked, shortWrite bool, failRead, failWrite int, which int) {
	max := vp.Bound("filelen", 6, 10)
	calls := vp.Bound("readcalls", 4, 6)
	if chunked {
		// symbolic piece boundaries make every byte an ite chain: smaller bounds
		max = vp.Bound("filelen.chunked", 6, 8)
		calls = vp.Bound("readcalls.chunked", 4, 5)
	}
	if shortWrite {
		// every split of every piece is a separate path: keep the product small
		max = vp.Bound("filelen.shortwrite", 4, 5)
		calls = vp.Bound("readcalls.shortwrite", 2, 4)
	}
	sf := c16SymFile("f", "src", max)
	S := c16NewFS("S", c16Dir(".", sf))
	D := c16NewFS("D", c16Dir("."))
	S.chunked, S.maxCall, S.failRead = chunked, calls+1, failRead
	D.shortWrite, D.failWrite = shortWrite, failWrite
	S.store, D.store = max, max
	infoSize := vp.I64("info.size")
	if which == 1 {
		vp.Assume(infoSize <= 64<<20)
	}
	if which == 2 {
		vp.Assume(infoSize > 64<<20)
	}
	info := c16SizeInfo{c16Info{sf}, infoSize}
	vp.Unwind(max + calls + 5)
	vp.NoPanic()
	vp.MaxLoop(max + calls + 2) // rounds <= read calls; write retries per round <= bytes read
	err := copyOneFile(S, D, "f", info)
	vp.AllowPanic()

	vp.Assert(len(S.handles) == 1, "source opened once")
	vp.Assert(len(D.handles) == 1, "destination opened once")
	hs, hd := S.handles[0], D.handles[0]
	vp.Assert(hs.closed, "source file closed")
	vp.Assert(hd.closed, "destination file closed")
	df := D.root.child("f")
	vp.Assert(df != nil, "destination file created")
	streaming := infoSize > 64<<20
	if err == nil {
		vp.Assert(df.size == sf.size, "nil only if the destination has the source's length")
		bytesOK, total := c16WritesMatch(hd, sf)
		vp.Assert(hd.wcalls <= len(hd.wlen), "bounded model: at most 8 write calls")
		vp.Assert(total == sf.size, "nil only if the bytes written add up to the source's length")
		vp.Assert(bytesOK, "nil only if every byte written is the source's byte at that position")
		vp.Assert(!hs.rerr, "nil only if the source reported no error")
		vp.Assert(!hd.werr, "nil only if the destination reported no error")
		vp.Assert(hs.reof, "nil only if the source was read to EOF")
		if streaming {
			vp.Cover("streaming copy succeeded")
		} else {
			vp.Cover("read-all copy succeeded")
		}
	} else {
		if !hs.rerr {
			if !hd.werr {
				if streaming {
					vp.Assert(hd.wzero, "streaming copy without I/O errors fails only if a write made no progress")
					vp.Cover("streaming copy stopped by a write without progress")
				} else {
					vp.Assert(shortWrite, "read-all copy without I/O errors fails only on a short write")
					vp.Cover("read-all copy stopped by a short write")
				}
			}
		}
		vp.Cover("copy failed")
	}
}

// info.Size() arbitrary: the choice between the two paths is the solver's
func VP_C16_copy_one_full()      { c16CopyOnePath(false, false, -1, -1, 0) }
func VP_C16_copy_one_readerr0()  { c16CopyOnePath(true, false, 0, -1, 0) }
func VP_C16_copy_one_writeerr0() { c16CopyOnePath(true, false, -1, 0, 0) }

// one path at a time (much smaller formulas than both paths merged)
func VP_C16_copy_one_chunked_readall()    { c16CopyOnePath(true, false, -1, -1, 1) }
func VP_C16_copy_one_chunked_stream()     { c16CopyOnePath(true, false, -1, -1, 2) }
func VP_C16_copy_one_shortwrite_readall() { c16CopyOnePath(false, true, -1, -1, 1) }
func VP_C16_copy_one_shortwrite_stream()  { c16CopyOnePath(false, true, -1, -1, 2) }
func VP_C16_copy_one_shortwrite_chunked() { c16CopyOnePath(true, true, -1, -1, 2) }
func VP_C16_copy_one_readerr1_readall()   { c16CopyOnePath(true, false, 1, -1, 1) }
func VP_C16_copy_one_readerr1_stream()    { c16CopyOnePath(true, false, 1, -1, 2) }
func VP_C16_copy_one_readerr2_stream()    { c16CopyOnePath(true, true, 2, -1, 2) }
func VP_C16_copy_one_writeerr1_stream()   { c16CopyOnePath(true, true, -1, 1, 2) }

// VP_C16_copy_one_big: the streaming path on a sparse all-zero source of arbitrary length
// 0..32 KiB+9 (thorough 3*32 KiB+9: more than one 32 KiB buffer; the 64 MiB threshold is passed through info.Size()),
// read in arbitrary pieces, written with full writes. Oracle: nil and destination length = source length.
func VP_C16_copy_one_big() {
	max := vp.Bound("biglen", 32768+9, 3*32768+9)
	sf := c16BigFile("f", "src", max)
	S := c16NewFS("S", c16Dir(".", sf))
	D := c16NewFS("D", c16Dir("."))
	S.chunked = vp.Thorough() // thorough: arbitrary piece sizes (short reads in the middle of the file), at most 5 read calls
	S.maxCall = 5
	infoSize := vp.I64("info.size")
	vp.Assume(infoSize > 64<<20)
	info := c16SizeInfo{c16Info{sf}, infoSize}
	vp.Unwind(10)
	vp.NoPanic()
	vp.MaxLoop(7)
	err := copyOneFile(S, D, "f", info)
	vp.AllowPanic()
	vp.Assert(err == nil, "streaming copy of a readable file into a writable destination succeeds")
	df := D.root.child("f")
	vp.Assert(df != nil, "destination file created")
	if df != nil {
		vp.Assert(df.size == sf.size, "destination length equals source length")
		if sf.size > 32768 {
			vp.Cover("file longer than the copy buffer streamed")
		}
	}
	vp.Cover("done")
}

// c16Under: the writer behind a LimitedWriter. It accepts a solver-chosen prefix of each buffer and,
// as io.Writer demands, reports an error whenever it accepted less than it was given.
type c16Under struct {
	dat   [4][8]byte // bytes accepted by call k
	n     int
	calls int
	lens  [4]int // len(p) of call k
	got   [4]int // accepted count of call k
}

func (u *c16Under) Write(p []byte) (int, error) {
	k := u.calls
	u.calls++
	vp.Assume(k < len(u.lens))
	c := int(vp.U8("under.w"+string(rune('0'+k))) & 15)
	vp.Assume(c <= len(p))
	for i := 0; i < 8; i++ {
		if i < c {
			u.dat[k&3][i] = p[i]
		}
	}
	u.n += c
	u.lens[k], u.got[k] = len(p), c
	if c < len(p) {
		return c, errC16
	}
	return c, nil
}

// VP_C16_limit_writer: three consecutive Writes of arbitrary buffers (length 0..4, thorough 0..8) through a
// LimitedWriter with an arbitrary int64 limit. Oracle (straight from the type's doc comment):
// never more than N bytes in total reach W, what reaches W is a prefix of what was offered, in
// order, the returned count is what W accepted, N is decremented by exactly that, and once N is
// used up W is not called any more and the caller is told so by an error.
func VP_C16_limit_writer() {
	limit := vp.I64("limit")
	maxLen := vp.Bound("buflen", 4, 8)
	u := &c16Under{}
	w := NewLimitWriter(u, limit)
	lw, ok := w.(*LimitedWriter)
	vp.Assert(ok, "NewLimitWriter returns a *LimitedWriter")
	remaining := limit
	vp.NoPanic()
	for r := 0; r < 3; r++ {
		p := vp.Bytes("p"+string(rune('0'+r)), 8)
		l := int(vp.U8("len"+string(rune('0'+r))) & 15)
		vp.Assume(l <= maxLen)
		before := u.calls
		n, err := w.Write(p[:l])
		if remaining <= 0 {
			vp.Assert(n == 0, "limit used up: nothing is written")
			vp.Assert(err != nil, "limit used up: the caller gets an error")
			vp.Assert(u.calls == before, "limit used up: the underlying writer is not called")
			vp.Cover("write refused after the limit was used up")
		} else {
			vp.Assert(u.calls == before+1, "one call of the underlying writer per Write")
			want := int64(l)
			if want > remaining {
				want = remaining
				vp.Cover("buffer clipped to the remaining limit")
			}
			vp.Assert(int64(u.lens[before&3]) == want, "the underlying writer is offered min(len(p), N) bytes")
			vp.Assert(n == u.got[before&3], "Write returns the count the underlying writer accepted")
			for i := 0; i < 8; i++ {
				if i < n {
					vp.Assert(u.dat[before&3][i] == p[i], "the bytes that reach W are the leading bytes of p, in order")
				}
			}
			if err == nil {
				vp.Assert(int64(n) == want, "no error only if everything offered was accepted")
			}
			remaining -= int64(n)
		}
		vp.Assert(lw.N == remaining, "N is the limit minus the bytes written so far")
	}
	vp.AllowPanic()
	if limit >= 0 {
		vp.Assert(int64(u.n) <= limit, "never more than the limit reaches W")
	} else {
		vp.Assert(u.n == 0, "a negative limit lets nothing through")
	}
	vp.Cover("done")
}

var _ = io.EOF

package sync

import (
	"github.com/diskfs/go-diskfs/internal/vp"
)

// The tree used by the structural harnesses (2 directories, 3 files; every file has an arbitrary
// length 0..max and arbitrary bytes, named <tag>.a / <tag>.b / <tag>.z):
//
//	a.txt   d/   d/b.bin   d/e/   z
func c16Tree(tag string, max int) *c16Node {
	return c16Dir(".",
		c16SymFile("a.txt", tag+".a", max),
		c16Dir("d",
			c16SymFile("b.bin", tag+".b", max),
			c16Dir("e"),
		),
		c16SymFile("z", tag+".z", max),
	)
}

// c16TreesEqual: reference comparison of the three files of two c16Tree-shaped trees.
func c16TreesEqual(o, t *c16Node) bool {
	eq := true
	for _, p := range []string{"a.txt", "d/b.bin", "z"} {
		fo, ft := o.lookup(p), t.lookup(p)
		if fo.size != ft.size {
			eq = false
		}
		if !c16SameBytes(fo, ft) {
			eq = false
		}
	}
	return eq
}

// c16CompareFS: CompareFS(orig, target) where both are c16Tree-shaped trees with independent
// arbitrary file lengths and contents, and `mut` applies ONE structural difference (case split).
// Oracle: structural difference => error; otherwise nil <=> the three files have equal length and bytes.
// Files are read with full reads here (piece-size sensitivity is C16.compare_contents_chunked*).
func c16CompareFS(mut string) {
	max := vp.Bound("filelen.tree", 3, 6)
	o := c16Tree("o", max)
	t := c16Tree("t", max)
	structural := true
	switch mut {
	case "none":
		structural = false
	case "missing_file":
		t.lookup("d").remove("b.bin")
	case "missing_dir":
		t.lookup("d").remove("e")
	case "missing_subtree":
		t.remove("d")
	case "extra_file":
		t.lookup("d").add(c16SymFile("x", "t.x", max))
	case "extra_dir":
		t.add(c16Dir("y"))
	case "extra_nested":
		t.lookup("d/e").add(c16SymFile("x", "t.x", max))
	case "extra_first":
		t.add(c16SymFile("0", "t.x", max)) // sorts before everything else
	case "file_for_dir":
		t.lookup("d").remove("e")
		t.lookup("d").add(c16SymFile("e", "t.x", max))
	case "dir_for_file":
		t.remove("z")
		t.add(c16Dir("z"))
	case "renamed":
		t.lookup("d").remove("b.bin")
		t.lookup("d").add(c16SymFile("b.bim", "t.b", max))
	case "excluded_orig":
		// the documented excluded names do not count, wherever they are and whatever they hold
		structural = false
		o.add(c16Dir("lost+found", c16SymFile("q", "o.q", max)))
		o.lookup("d").add(c16SymFile(".DS_Store", "o.ds", max))
	case "excluded_target":
		structural = false
		t.add(c16Dir("System Volume Information", c16SymFile("q", "t.q", max)))
		t.lookup("d/e").add(c16Dir("lost+found"))
	case "excluded_both":
		structural = false
		o.add(c16SymFile(".DS_Store", "o.ds", max))
		t.add(c16SymFile(".DS_Store", "t.ds", max))
	case "excluded_prefix":
		// a name that merely starts like an excluded one is NOT excluded
		o.add(c16Dir("lost+found2"))
	default:
		vp.Assert(false, "unknown mutation")
	}
	O := c16NewFS("O", o)
	T := c16NewFS("T", t)
	O.store, T.store = max, max
	vp.Unwind(12)
	vp.NoPanic()
	err := CompareFS(O, T)
	vp.AllowPanic()
	if structural {
		vp.Assert(err != nil, "a missing/extra entry or a file-vs-directory difference is reported")
		vp.Cover("structural difference reported")
		return
	}
	eq := c16TreesEqual(o, t)
	if err == nil {
		vp.Assert(eq, "nil only if every file has the same length and bytes")
		vp.Cover("trees reported equal")
	} else {
		vp.Assert(!eq, "equal trees are reported equal")
		vp.Cover("content difference reported")
	}
	for _, h := range O.handles {
		vp.Assert(h.closed, "every file opened in the original is closed")
	}
	for _, h := range T.handles {
		vp.Assert(h.closed, "every file opened in the target is closed")
	}
}

func VP_C16_compare_fs_none()            { c16CompareFS("none") }
func VP_C16_compare_fs_missing_file()    { c16CompareFS("missing_file") }
func VP_C16_compare_fs_missing_dir()     { c16CompareFS("missing_dir") }
func VP_C16_compare_fs_missing_subtree() { c16CompareFS("missing_subtree") }
func VP_C16_compare_fs_extra_file()      { c16CompareFS("extra_file") }
func VP_C16_compare_fs_extra_dir()       { c16CompareFS("extra_dir") }
func VP_C16_compare_fs_extra_nested()    { c16CompareFS("extra_nested") }
func VP_C16_compare_fs_extra_first()     { c16CompareFS("extra_first") }
func VP_C16_compare_fs_file_for_dir()    { c16CompareFS("file_for_dir") }
func VP_C16_compare_fs_dir_for_file()    { c16CompareFS("dir_for_file") }
func VP_C16_compare_fs_renamed()         { c16CompareFS("renamed") }
func VP_C16_compare_fs_excluded_orig()   { c16CompareFS("excluded_orig") }
func VP_C16_compare_fs_excluded_target() { c16CompareFS("excluded_target") }
func VP_C16_compare_fs_excluded_both()   { c16CompareFS("excluded_both") }
func VP_C16_compare_fs_excluded_prefix() { c16CompareFS("excluded_prefix") }

// c16SrcTree: c16Tree plus entries with each of the documented excluded names (at the root and
// below it, as file and as directory with content).
func c16SrcTree(max int) *c16Node {
	s := c16Tree("s", max)
	s.add(c16SymFile(".DS_Store", "s.ds", max))
	s.add(c16Dir("System Volume Information"))
	s.lookup("d").add(c16Dir("lost+found", c16SymFile("q", "s.q", max)))
	return s
}

// c16CopyTree: CopyFileSystem of c16SrcTree into an empty destination, then (mut) one single-point
// change of the copy, then CompareFS(source, copy).
// Oracle: the copy succeeds; the destination holds exactly a.txt, d/, d/b.bin, d/e/, z with the
// source's lengths and bytes and none of the excluded names; CompareFS says nil for the untouched
// copy and reports an error after any single change.
func c16CopyTree(chunkedCopy bool, mut string) {
	max := vp.Bound("filelen.tree", 3, 6)
	if chunkedCopy {
		max = vp.Bound("filelen.tree.chunked", 2, 3)
	}
	s := c16SrcTree(max)
	S := c16NewFS("S", s)
	S.chunked = chunkedCopy
	// parameters of the single-point change (constrained against the source, which the copy must equal)
	mi, mx, mk := 0, byte(0), 0
	switch mut {
	case "flip": // byte mi of d/b.bin is xor-ed with mx != 0
		mi = int(vp.U8("flip.index") & (c16Cap - 1))
		mx = vp.U8("flip.xor")
		vp.Assume(mi < s.lookup("d/b.bin").size)
		vp.Assume(mx != 0)
	case "truncate": // z loses its last mk >= 1 bytes
		mk = int(vp.U8("cut") & 31)
		vp.Assume(mk >= 1)
		vp.Assume(mk <= s.lookup("z").size)
	case "extend": // a.txt gains mk >= 1 bytes
		mk = int(vp.U8("grow") & 31)
		vp.Assume(mk >= 1)
		vp.Assume(s.lookup("a.txt").size+mk <= max)
	}
	d := c16Dir(".")
	D := c16NewFS("D", d)
	S.store, D.store = max, max
	vp.Unwind(16)
	vp.NoPanic()
	err := CopyFileSystem(S, D)
	vp.AllowPanic()
	vp.Assert(err == nil, "copy into an empty writable destination succeeds")
	if err != nil {
		return
	}
	vp.Assert(len(d.kids) == 3, "destination root holds exactly a.txt, d, z")
	dd := d.lookup("d")
	vp.Assert(dd != nil, "directory d created")
	if dd == nil {
		return
	}
	vp.Assert(dd.dir, "d is a directory")
	vp.Assert(len(dd.kids) == 2, "d holds exactly b.bin and e")
	de := d.lookup("d/e")
	vp.Assert(de != nil, "empty directory d/e created")
	if de == nil {
		return
	}
	vp.Assert(de.dir, "d/e is a directory")
	vp.Assert(len(de.kids) == 0, "d/e is empty")
	for _, p := range []string{"a.txt", "d/b.bin", "z"} {
		fs, fd := s.lookup(p), d.lookup(p)
		vp.Assert(fd != nil, "file created in the destination")
		if fd == nil {
			return
		}
		vp.Assert(!fd.dir, "file copied as a file")
		vp.Assert(fd.size == fs.size, "copied file has the source's length")
		vp.Assert(c16SameBytes(fs, fd), "copied file has the source's bytes")
	}
	for _, h := range S.handles {
		vp.Assert(h.closed, "every source file is closed")
	}
	for _, h := range D.handles {
		vp.Assert(h.closed, "every destination file is closed")
	}
	vp.Cover("tree copied")

	// single-point change of the copy
	changed := true
	switch mut {
	case "none":
		changed = false
	case "flip":
		d.lookup("d/b.bin").buf[mi] ^= mx
	case "truncate":
		d.lookup("z").size -= mk
	case "extend":
		d.lookup("a.txt").size += mk // the added bytes are whatever the backing array holds (zeros)
	case "drop_dir":
		dd.remove("e")
	case "drop_file":
		d.remove("a.txt")
	case "add_file":
		de.add(c16SymFile("new", "d.new", max))
	case "dir_to_file":
		dd.remove("e")
		dd.add(c16SymFile("e", "d.new", max))
	case "file_to_dir":
		d.remove("z")
		d.add(c16Dir("z"))
	default:
		vp.Assert(false, "unknown mutation")
	}
	S.chunked = false
	vp.NoPanic()
	cerr := CompareFS(S, D)
	vp.AllowPanic()
	if changed {
		vp.Assert(cerr != nil, "CompareFS reports a single changed byte/length/entry/kind of the copy")
		vp.Cover("changed copy reported")
	} else {
		vp.Assert(cerr == nil, "CompareFS accepts the untouched copy")
		vp.Cover("untouched copy accepted")
	}
}

func VP_C16_copy_tree() { c16CopyTree(false, "none") }
func VP_C16_copy_tree_chunked() {
	if vp.Thorough() { // piece-wise reading of one file is C16.copy_one_chunked in both tiers
		c16CopyTree(true, "none")
	}
}
func VP_C16_copy_mut_flip()        { c16CopyTree(false, "flip") }
func VP_C16_copy_mut_truncate()    { c16CopyTree(false, "truncate") }
func VP_C16_copy_mut_extend()      { c16CopyTree(false, "extend") }
func VP_C16_copy_mut_drop_dir()    { c16CopyTree(false, "drop_dir") }
func VP_C16_copy_mut_drop_file()   { c16CopyTree(false, "drop_file") }
func VP_C16_copy_mut_add_file()    { c16CopyTree(false, "add_file") }
func VP_C16_copy_mut_dir_to_file() { c16CopyTree(false, "dir_to_file") }
func VP_C16_copy_mut_file_to_dir() { c16CopyTree(false, "file_to_dir") }

// c16CopyFail: one operation of the source (open / readdir) or of the destination (mkdir / openfile /
// the first write) fails while copying c16SrcTree. The destination cannot be equal to the source
// then, so CopyFileSystem must not return nil.
func c16CopyFail(onSrc bool, op, p string) {
	max := vp.Bound("filelen.tree", 3, 6)
	S := c16NewFS("S", c16SrcTree(max))
	D := c16NewFS("D", c16Dir("."))
	S.store, D.store = max, max
	if onSrc {
		S.failOp, S.failPath = op, p
	} else if op == "write" {
		D.failWrite = 0
	} else {
		D.failOp, D.failPath = op, p
	}
	vp.Unwind(16)
	vp.NoPanic()
	err := CopyFileSystem(S, D)
	vp.AllowPanic()
	if op == "write" {
		// a write only happens for non-empty data or an explicit empty write; either way it failed
		werr := false
		for _, h := range D.handles {
			if h.werr {
				werr = true
			}
		}
		if werr {
			vp.Assert(err != nil, "a failed write is reported")
			vp.Cover("failed write reported")
		}
		vp.Cover("done")
		return
	}
	vp.Assert(err != nil, "a failed source/destination operation is reported")
	vp.Cover("failure reported")
}

func VP_C16_copy_fail_src_open()     { c16CopyFail(true, "open", "d/b.bin") }
func VP_C16_copy_fail_src_readdir()  { c16CopyFail(true, "readdir", "d/e") }
func VP_C16_copy_fail_src_root()     { c16CopyFail(true, "readdir", ".") }
func VP_C16_copy_fail_dst_mkdir()    { c16CopyFail(false, "mkdir", "d/e") }
func VP_C16_copy_fail_dst_openfile() { c16CopyFail(false, "openfile", "z") }
func VP_C16_copy_fail_dst_write()    { c16CopyFail(false, "write", "") }

// VP_C16_copy_tree_preexisting: the destination already holds a longer file z, a directory d with a
// file b.bin of other content: after the copy these have the source's length and bytes.
func VP_C16_copy_tree_preexisting() {
	max := vp.Bound("filelen.tree", 3, 6)
	s := c16SrcTree(max)
	S := c16NewFS("S", s)
	d := c16Dir(".", c16Dir("d", c16SymFile("b.bin", "old.b", c16Cap)), c16SymFile("z", "old.z", c16Cap))
	D := c16NewFS("D", d)
	S.store, D.store = max, max
	vp.Unwind(16)
	vp.NoPanic()
	err := CopyFileSystem(S, D)
	vp.AllowPanic()
	vp.Assert(err == nil, "copy into a writable destination with older versions of the entries succeeds")
	if err != nil {
		return
	}
	for _, p := range []string{"a.txt", "d/b.bin", "z"} {
		fs, fd := s.lookup(p), d.lookup(p)
		vp.Assert(fd != nil, "file present in the destination")
		if fd == nil {
			return
		}
		vp.Assert(fd.size == fs.size, "copied file has the source's length (older content is truncated)")
		vp.Assert(c16SameBytes(fs, fd), "copied file has the source's bytes")
	}
	vp.Assert(d.lookup("d/e") != nil, "d/e created")
	vp.Assert(len(d.kids) == 3, "no excluded name copied into the root")
	vp.Assert(len(d.lookup("d").kids) == 2, "no excluded name copied into d")
	S.chunked = false
	vp.NoPanic()
	cerr := CompareFS(S, D)
	vp.AllowPanic()
	vp.Assert(cerr == nil, "CompareFS accepts the copy")
	vp.Cover("copied over older entries")
}

package sync

import (
	"errors"
	"io"
	"io/fs"
	"os"
	"time"

	"github.com/diskfs/go-diskfs/filesystem"
	"github.com/diskfs/go-diskfs/internal/vp"
)

// Harness-side models for C16: an in-memory tree that is an fs.FS (source / comparison side)
// and a filesystem.FileSystem (copy destination), with files whose Read/Write chunking is
// either "full" (every call moves as much as fits) or arbitrary (solver-chosen piece sizes).

var errC16 = errors.New("c16: injected I/O error")
var errC16NotExist = fs.ErrNotExist

// c16Cap is the capacity of every file's backing array.
const c16Cap = 16

type c16Node struct {
	name string
	dir  bool
	kids []*c16Node // kept sorted by name
	buf  [c16Cap]byte
	size int // symbolic, 0..c16Cap
	mode fs.FileMode
	// big: a sparse file of arbitrary length (not limited to c16Cap) whose bytes are all zero and
	// are not stored; reads deliver counts only (the caller's buffer is left as it is)
	big bool
}

func c16Dir(name string, kids ...*c16Node) *c16Node {
	return &c16Node{name: name, dir: true, kids: kids, mode: fs.ModeDir | 0o755}
}

// c16SymFile: a regular file with arbitrary length (<= max) and arbitrary bytes; tag names the
// solver variables (tag.len, tag.data[i]).
func c16SymFile(name, tag string, max int) *c16Node {
	n := &c16Node{name: name, mode: 0o644}
	vp.Fill(n.buf[:], tag+".data")
	l := int(vp.U8(tag+".len") & 31)
	vp.Assume(l <= max)
	n.size = l
	return n
}

// c16BigFile: a sparse (all-zero) regular file of arbitrary length 0..max (max < 2^18).
func c16BigFile(name, tag string, max int) *c16Node {
	n := &c16Node{name: name, mode: 0o644, big: true}
	l := int(vp.U32(tag+".len") & 0x3FFFF)
	vp.Assume(l <= max)
	n.size = l
	return n
}

func (n *c16Node) child(name string) *c16Node {
	for _, k := range n.kids {
		if k.name == name {
			return k
		}
	}
	return nil
}

func (n *c16Node) add(k *c16Node) {
	i := 0
	for i < len(n.kids) && n.kids[i].name < k.name {
		i++
	}
	n.kids = append(n.kids, nil)
	copy(n.kids[i+1:], n.kids[i:])
	n.kids[i] = k
}

func (n *c16Node) remove(name string) {
	for i, k := range n.kids {
		if k.name == name {
			n.kids = append(n.kids[:i:i], n.kids[i+1:]...)
			return
		}
	}
}

// lookup walks a slash-separated clean relative path ("." = root).
func (n *c16Node) lookup(p string) *c16Node {
	if p == "." || p == "" {
		return n
	}
	cur := n
	start := 0
	for i := 0; i <= len(p); i++ {
		if i == len(p) || p[i] == '/' {
			if cur == nil || !cur.dir {
				return nil
			}
			cur = cur.child(p[start:i])
			start = i + 1
		}
	}
	return cur
}

func c16Split(p string) (dir, base string) {
	for i := len(p) - 1; i >= 0; i-- {
		if p[i] == '/' {
			return p[:i], p[i+1:]
		}
	}
	return ".", p
}

// c16Info is FileInfo and DirEntry of a node.
type c16Info struct{ n *c16Node }

func (i c16Info) Name() string               { return i.n.name }
func (i c16Info) Size() int64                { return int64(i.n.size) }
func (i c16Info) Mode() fs.FileMode          { return i.n.mode }
func (i c16Info) ModTime() time.Time         { return time.Time{} }
func (i c16Info) IsDir() bool                { return i.n.dir }
func (i c16Info) Sys() interface{}           { return nil }
func (i c16Info) Type() fs.FileMode          { return i.n.mode.Type() }
func (i c16Info) Info() (fs.FileInfo, error) { return i, nil }

// c16FS is the tree as a filesystem.
type c16FS struct {
	root *c16Node
	// chunked: file reads deliver solver-chosen piece sizes (names tag.r<k>) instead of full reads
	chunked bool
	tag     string
	maxCall int
	// shortWrite: file writes accept a solver-chosen prefix (names tag.w<k>) and report it with a nil error
	shortWrite bool
	// failRead / failWrite: the call with this index (counted per handle) reports errC16
	failRead  int
	failWrite int
	// failOp/failPath: the named operation ("open", "readdir", "mkdir", "openfile") on that path fails
	// store: how many leading bytes of a file Read/Write move per call (>= the longest file of the
	// harness; lengths are always tracked exactly). Keeps the per-call formulas small.
	store    int
	failOp   string
	failPath string
	mkdirs   []string
	creates  []string
	chtimes  []string
	handles  []*c16Handle
}

func c16NewFS(tag string, root *c16Node) *c16FS {
	return &c16FS{root: root, tag: tag, maxCall: 8, failRead: -1, failWrite: -1, store: c16Cap}
}

// c16Handle is an open file or directory.
type c16Handle struct {
	fs     *c16FS
	n      *c16Node
	tag    string
	pos    int
	rcalls int
	wcalls int
	rn     [8]int          // piece size of read call k
	reof   bool            // an io.EOF was returned
	rerr   bool            // errC16 was returned by a read
	werr   bool            // errC16 was returned by a write
	wlen   [8]int          // accepted count of write call k
	wdat   [8][c16Cap]byte // the accepted bytes of write call k (first store bytes)
	wzero  bool            // a write of a non-empty buffer accepted nothing (and reported no error)
	write  bool
	closed bool
}

func (m *c16FS) fails(op, p string) bool { return m.failOp == op && m.failPath == p }

func (m *c16FS) Open(name string) (fs.File, error) {
	if m.fails("open", name) {
		return nil, &fs.PathError{Op: "open", Path: name, Err: errC16}
	}
	n := m.root.lookup(name)
	if n == nil {
		return nil, &fs.PathError{Op: "open", Path: name, Err: errC16NotExist}
	}
	h := &c16Handle{fs: m, n: n, tag: m.tag + "." + name + "#" + string(rune('0'+len(m.handles)))}
	m.handles = append(m.handles, h)
	return h, nil
}

func (m *c16FS) Stat(name string) (fs.FileInfo, error) {
	n := m.root.lookup(name)
	if n == nil {
		return nil, &fs.PathError{Op: "stat", Path: name, Err: errC16NotExist}
	}
	return c16Info{n}, nil
}

func (m *c16FS) ReadDir(name string) ([]fs.DirEntry, error) {
	if m.fails("readdir", name) {
		return nil, &fs.PathError{Op: "readdir", Path: name, Err: errC16}
	}
	n := m.root.lookup(name)
	if n == nil {
		return nil, &fs.PathError{Op: "readdir", Path: name, Err: errC16NotExist}
	}
	if !n.dir {
		return nil, &fs.PathError{Op: "readdir", Path: name, Err: errors.New("not a directory")}
	}
	out := make([]fs.DirEntry, 0, len(n.kids))
	for _, k := range n.kids {
		out = append(out, c16Info{k})
	}
	return out, nil
}

func (m *c16FS) ReadFile(name string) ([]byte, error) { return nil, filesystem.ErrNotImplemented }

func (h *c16Handle) Stat() (fs.FileInfo, error) { return c16Info{h.n}, nil }
func (h *c16Handle) Close() error               { h.closed = true; return nil }

func (h *c16Handle) Seek(offset int64, whence int) (int64, error) {
	return 0, filesystem.ErrNotImplemented
}

// Read: the io.Reader contract and nothing more. n <= len(p) bytes of the remaining content;
// io.EOF either together with the last bytes or on the following call (solver's choice);
// an empty read at the end always reports io.EOF.
func (h *c16Handle) Read(p []byte) (int, error) {
	if h.n.dir {
		return 0, &fs.PathError{Op: "read", Path: h.n.name, Err: errors.New("is a directory")}
	}
	k := h.rcalls
	h.rcalls++
	vp.Assume(k < h.fs.maxCall)
	vp.Assume(k < len(h.rn))
	if k == h.fs.failRead {
		h.rerr = true
		return 0, errC16
	}
	rem := h.n.size - h.pos
	if rem <= 0 {
		h.reof = true
		return 0, io.EOF
	}
	if h.n.big {
		n := vp.IteInt(len(p) < rem, len(p), rem) & 0xFFFF
		if h.fs.chunked {
			c := int(vp.U16(h.tag+".r"+string(rune('0'+k))) & 0xFFFF)
			vp.Assume(c <= n)
			vp.Assume(c >= 1)
			n = c
		}
		h.pos += n
		h.rn[k] = n
		if h.pos == h.n.size {
			if vp.Bool(h.tag + ".eofWithData") {
				h.reof = true
				return n, io.EOF
			}
		}
		return n, nil
	}
	vp.Assume(h.n.size <= h.fs.store) // only the first bytes of a file are stored
	n := vp.IteInt(len(p) < rem, len(p), rem) & 31
	if h.fs.chunked {
		c := int(vp.U8(h.tag+".r"+string(rune('0'+k))) & 31)
		vp.Assume(c <= n)
		vp.Assume(c >= 1) // a reader that makes progress (0, nil) reads are legal but discouraged: not needed here
		n = c
	}
	m := len(p)
	if m > h.fs.store {
		m = h.fs.store
	}
	q := p[:m]
	pos := h.pos
	vp.FillFunc(q, func(i int) byte {
		in := i < n
		return vp.IteU8(in, h.n.buf[vp.IteInt(in, (pos+i)&(c16Cap-1), 0)], q[i])
	})
	h.pos += n
	h.rn[k] = n
	if h.pos == h.n.size {
		if vp.Bool(h.tag + ".eofWithData") {
			h.reof = true
			return n, io.EOF
		}
	}
	return n, nil
}

// Write appends at the current position (files are opened truncated by the copy).
func (h *c16Handle) Write(p []byte) (int, error) {
	k := h.wcalls
	h.wcalls++
	if !h.write {
		return 0, errors.New("c16: not open for writing")
	}
	if k == h.fs.failWrite {
		h.werr = true
		return 0, errC16
	}
	w := len(p)
	if h.fs.shortWrite {
		// piece sizes repeat with period 8 (no loss within the bounds: a copy of <= 5 bytes makes
		// <= 6 write calls); a copy loop that never ends then also never ends in the native replay
		c := int(vp.U8(h.tag+".w"+string(rune('0'+k&7))) & 31)
		vp.Assume(c <= w)
		w = c
		if w == 0 {
			if len(p) > 0 {
				h.wzero = true
			}
		}
	}
	// the length is tracked exactly; only the first c16Cap bytes are stored (a correct copy of a
	// source of at most c16Cap bytes never writes beyond them)
	pos := h.pos
	if k < len(h.wlen) {
		h.wlen[k] = w
		for i := 0; i < h.fs.store; i++ {
			if i < w {
				h.wdat[k][i] = p[i]
			}
		}
	}
	for i := 0; i < h.fs.store; i++ {
		if i < w {
			if pos+i < c16Cap {
				h.n.buf[(pos+i)&(c16Cap-1)] = p[i]
			}
		}
	}
	h.pos += w
	if h.pos > h.n.size {
		h.n.size = h.pos
	}
	return w, nil
}

// ---- filesystem.FileSystem (destination side) ----

func (m *c16FS) Type() filesystem.Type { return filesystem.TypeFat32 }

func (m *c16FS) Mkdir(p string) error {
	m.mkdirs = append(m.mkdirs, p)
	if m.fails("mkdir", p) {
		return &fs.PathError{Op: "mkdir", Path: p, Err: errC16}
	}
	d, b := c16Split(p)
	par := m.root.lookup(d)
	if par == nil || !par.dir {
		return &fs.PathError{Op: "mkdir", Path: p, Err: errC16NotExist}
	}
	if k := par.child(b); k != nil {
		if k.dir {
			return nil
		}
		return &fs.PathError{Op: "mkdir", Path: p, Err: fs.ErrExist}
	}
	par.add(c16Dir(b))
	return nil
}

func (m *c16FS) OpenFile(p string, flag int) (filesystem.File, error) {
	if m.fails("openfile", p) {
		return nil, &fs.PathError{Op: "open", Path: p, Err: errC16}
	}
	d, b := c16Split(p)
	par := m.root.lookup(d)
	if par == nil || !par.dir {
		return nil, &fs.PathError{Op: "open", Path: p, Err: errC16NotExist}
	}
	n := par.child(b)
	if n == nil {
		if flag&os.O_CREATE == 0 {
			return nil, &fs.PathError{Op: "open", Path: p, Err: errC16NotExist}
		}
		n = &c16Node{name: b, mode: 0o644}
		par.add(n)
		m.creates = append(m.creates, p)
	}
	if n.dir {
		return nil, &fs.PathError{Op: "open", Path: p, Err: errors.New("is a directory")}
	}
	if flag&os.O_TRUNC != 0 {
		n.size = 0
	}
	h := &c16Handle{fs: m, n: n, tag: m.tag + "." + p + "#" + string(rune('0'+len(m.handles))), write: flag&(os.O_RDWR|os.O_WRONLY) != 0}
	m.handles = append(m.handles, h)
	return h, nil
}

func (m *c16FS) Chtimes(p string, ctime, atime, mtime time.Time) error {
	m.chtimes = append(m.chtimes, p)
	return nil
}

func (m *c16FS) Mknod(pathname string, mode uint32, dev int) error { return filesystem.ErrNotSupported }
func (m *c16FS) Link(oldpath, newpath string) error                { return filesystem.ErrNotSupported }
func (m *c16FS) Symlink(oldpath, newpath string) error             { return filesystem.ErrNotSupported }
func (m *c16FS) Chmod(name string, mode os.FileMode) error         { return nil }
func (m *c16FS) Chown(name string, uid, gid int) error             { return nil }
func (m *c16FS) Rename(oldpath, newpath string) error              { return filesystem.ErrNotSupported }
func (m *c16FS) Remove(pathname string) error                      { return filesystem.ErrNotSupported }
func (m *c16FS) Label() string                                     { return "" }
func (m *c16FS) SetLabel(label string) error                       { return nil }
func (m *c16FS) Close() error                                      { return nil }

var _ filesystem.FileSystem = (*c16FS)(nil)

// c16SameFile: reference comparison of two regular files (length and every byte).
// Returns the two facts separately so that harnesses need no && on symbolic values.
func c16SameBytes(a, b *c16Node) bool {
	same := true
	for i := 0; i < c16Cap; i++ {
		if i < a.size {
			if a.buf[i] != b.buf[i] {
				same = false
			}
		}
	}
	return same
}

// c16WritesMatch: every byte accepted by the write calls of h equals the byte of src at the same
// stream position (the calls append one after the other), and together they are exactly src's
// length. Per-call records keep the formula flat (no chains of stores at symbolic positions).
func c16WritesMatch(h *c16Handle, src *c16Node) (bytesOK bool, total int) {
	bytesOK = true
	off := 0
	for k := 0; k < len(h.wlen); k++ {
		if k < h.wcalls {
			for i := 0; i < h.fs.store; i++ {
				if i < h.wlen[k] {
					if off+i < src.size {
						if h.wdat[k][i] != src.buf[(off+i)&(c16Cap-1)] {
							bytesOK = false
						}
					}
				}
			}
			off += h.wlen[k]
		}
	}
	return bytesOK, off
}

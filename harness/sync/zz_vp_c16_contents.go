package sync

import (
	"github.com/diskfs/go-diskfs/internal/vp"
)

// C16.compare_contents*: compareFileContents over two files with arbitrary lengths (<= max),
// arbitrary bytes and (chunked variants) arbitrary read piece sizes / EOF timing on both sides.
// Oracle: nil <=> same length and same bytes.
//
// A reader is free to deliver fewer bytes than asked for (io.Reader contract); the comparison
// loop pairs the k-th Read of one side with the k-th Read of the other, so equal files delivered
// in different piece sizes are reported as different. That input class is KF-C16-1.
func c16CompareContents(chunkA, chunkB bool, failA, failB int) {
	max := vp.Bound("filelen", 6, 10)
	calls := vp.Bound("readcalls", 4, 6)
	if chunkA || chunkB {
		// symbolic piece boundaries make every byte an ite chain: smaller bounds
		max = vp.Bound("filelen.chunked", 6, 10)
		calls = vp.Bound("readcalls.chunked", 4, 6)
	}
	fa := c16SymFile("f", "a", max)
	fb := c16SymFile("f", "b", max)
	A := c16NewFS("A", c16Dir(".", fa))
	B := c16NewFS("B", c16Dir(".", fb))
	A.chunked, B.chunked = chunkA, chunkB
	A.maxCall, B.maxCall = calls, calls
	A.store, B.store = max, max
	A.failRead, B.failRead = failA, failB
	vp.Unwind(calls + 3)
	vp.NoPanic()
	vp.MaxLoop(calls + 1) // every round reads at least one byte or ends the comparison
	err := compareFileContents(A, B, "f")
	vp.AllowPanic()

	ha, hb := A.handles[0], B.handles[0]
	vp.Assert(ha.closed, "first file closed")
	vp.Assert(hb.closed, "second file closed")
	sameLen := fa.size == fb.size
	sameBytes := c16SameBytes(fa, fb)
	// the piece sizes of the two sides differ at some call both sides made
	differentPieces := false
	for k := 0; k < len(ha.rn); k++ {
		if k < ha.rcalls && k < hb.rcalls {
			if ha.rn[k] != hb.rn[k] {
				differentPieces = true
			}
		}
	}
	if err == nil {
		vp.Assert(sameLen, "nil only if the lengths are equal")
		vp.Assert(sameBytes, "nil only if every byte is equal")
		vp.Assert(!ha.rerr, "nil only if the first reader reported no error")
		vp.Assert(!hb.rerr, "nil only if the second reader reported no error")
		vp.Cover("files reported equal")
	} else {
		if sameLen {
			if sameBytes {
				if !ha.rerr {
					if !hb.rerr {
						vp.AssertUnless("KF-C16-1", differentPieces, false, "equal contents read without error are reported equal")
					}
				}
			}
		}
		vp.Cover("files reported different")
	}
}

// both sides fill the buffer (what the filesystems of this library do)
func VP_C16_compare_contents_full() { c16CompareContents(false, false, -1, -1) }

// arbitrary piece sizes on one side / both sides
func VP_C16_compare_contents_chunked_a()  { c16CompareContents(true, false, -1, -1) }
func VP_C16_compare_contents_chunked_ab() { c16CompareContents(true, true, -1, -1) }

// a read error (not EOF) on either side at call 0 / 1 must surface
func VP_C16_compare_contents_err_a0() { c16CompareContents(false, false, 0, -1) }
func VP_C16_compare_contents_err_a1() { c16CompareContents(false, false, 1, -1) }
func VP_C16_compare_contents_err_b0() { c16CompareContents(false, false, -1, 0) }
func VP_C16_compare_contents_err_b1() { c16CompareContents(true, true, -1, 1) }

// VP_C16_compare_contents_big: two sparse all-zero files of arbitrary lengths 0..32 KiB+9 (thorough: 3*32 KiB+9), i.e.
// longer than the 32 KiB comparison buffer, both read with full reads (EOF timing arbitrary):
// the multi-round logic of the loop. Oracle: nil <=> equal lengths.
func VP_C16_compare_contents_big() {
	max := vp.Bound("biglen", 32768+9, 3*32768+9)
	fa := c16BigFile("f", "a", max)
	fb := c16BigFile("f", "b", max)
	A := c16NewFS("A", c16Dir(".", fa))
	B := c16NewFS("B", c16Dir(".", fb))
	vp.Unwind(8)
	vp.NoPanic()
	vp.MaxLoop(5)
	err := compareFileContents(A, B, "f")
	vp.AllowPanic()
	if err == nil {
		vp.Assert(fa.size == fb.size, "nil only if the lengths are equal")
		if fa.size > 32768 {
			vp.Cover("equal files longer than the buffer reported equal")
		}
		vp.Cover("big files reported equal")
	} else {
		vp.Assert(fa.size != fb.size, "equal all-zero files are reported equal")
		vp.Cover("big files reported different")
	}
}

package file

import (
	"errors"
	"io"
	"io/fs"

	"github.com/diskfs/go-diskfs/backend"
	"github.com/diskfs/go-diskfs/internal/vp"
	"github.com/diskfs/go-diskfs/internal/vp/vpdev"
)

// c11ROFile is an fs.File that can be read and positioned but has no WriteAt: the kind of file
// a caller hands to New when all it has is a reader. It forwards reads to a MemDev.
type c11ROFile struct{ d *vpdev.MemDev }

func (f c11ROFile) Stat() (fs.FileInfo, error)                { return f.d.Stat() }
func (f c11ROFile) Read(p []byte) (int, error)                { return f.d.Read(p) }
func (f c11ROFile) Close() error                              { return nil }
func (f c11ROFile) ReadAt(p []byte, off int64) (int, error)   { return f.d.ReadAt(p, off) }
func (f c11ROFile) Seek(off int64, whence int) (int64, error) { return f.d.Seek(off, whence) }

// VP_C11_file_writable: New(f, readOnly).Writable() for an arbitrary readOnly flag over a file
// that is able to write. A handle for writing is handed out only if readOnly is false; the
// refusal carries no handle, is ErrIncorrectOpenMode and does not touch the file.
func VP_C11_file_writable() {
	ro := vp.Bool("readOnly")
	dev := vpdev.NewMemDev("img", 4096)
	dev.UF = true
	b := New(dev, ro)
	vp.NoPanic()
	w, err := b.Writable()
	vp.AllowPanic()
	if ro {
		vp.Assert(err != nil, "read-only backend: Writable() returns an error")
		vp.Assert(w == nil, "read-only backend: no writable handle is handed out")
		vp.Assert(errors.Is(err, backend.ErrIncorrectOpenMode), "read-only backend: the error is ErrIncorrectOpenMode")
		vp.Cover("read-only backend refuses")
	} else {
		vp.Assert(err == nil, "read-write backend over a writable file: Writable() succeeds")
		vp.Assert(w != nil, "read-write backend: a handle is returned")
		p := vp.Bytes("data", 4)
		n, werr := w.WriteAt(p, 16)
		vp.Assert(werr == nil, "write through the handle succeeds")
		vp.Assert(n == 4, "write through the handle is complete")
		vp.Assert(dev.ByteAt(17) == p[1], "the handle writes to the file given to New")
		vp.Cover("read-write backend hands out the file")
	}
	vp.Assert(dev.WritableCalls == 0, "the backend does not ask the wrapped file for another handle")
	if ro {
		vp.Assert(len(dev.Log) == 0, "read-only backend: nothing was written")
	}
}

// VP_C11_file_writable_reader_only: a file without WriteAt never yields a writable handle,
// whatever readOnly says.
func VP_C11_file_writable_reader_only() {
	ro := vp.Bool("readOnly")
	dev := vpdev.NewMemDev("img", 4096)
	dev.UF = true
	dev.NoWrites = true
	b := New(c11ROFile{dev}, ro)
	vp.NoPanic()
	w, err := b.Writable()
	vp.AllowPanic()
	vp.Assert(err != nil, "a file without WriteAt: Writable() returns an error")
	vp.Assert(w == nil, "a file without WriteAt: no handle")
	if ro {
		vp.Cover("reader-only file, readOnly=true")
	} else {
		vp.Cover("reader-only file, readOnly=false")
	}
}

// VP_C11_file_reads_do_not_write: every reading method of the backend (ReadAt, Read, Seek,
// Stat, Path, Sys, Close) with arbitrary arguments leaves the file unwritten, in both modes, and
// a rejected Writable() in between changes nothing: the bytes read before and after are equal.
func VP_C11_file_reads_do_not_write() {
	ro := vp.Bool("readOnly")
	dev := vpdev.NewMemDev("img", 64)
	dev.UF = true
	dev.NoWrites = true // any WriteAt on the file is an assertion failure
	b := New(dev, ro)
	off := vp.I64("off")
	so := vp.I64("seekoff")
	wh := vp.Int("whence")
	vp.Assume(wh >= 0)
	vp.Assume(wh <= 2)
	p1 := make([]byte, 8)
	p2 := make([]byte, 8)
	p3 := make([]byte, 8)
	vp.NoPanic()
	n1, e1 := b.ReadAt(p1, off)
	_, _ = b.Seek(so, wh)
	_, _ = b.Read(p3)
	_, _ = b.Stat()
	_ = b.Path()
	_, _ = b.Sys()
	if ro {
		_, werr := b.Writable()
		vp.Assert(werr != nil, "rejected Writable() between the reads")
	}
	n2, e2 := b.ReadAt(p2, off)
	_ = b.Close()
	vp.AllowPanic()
	vp.Assert(len(dev.Log) == 0, "no write reached the file")
	vp.Assert(n1 == n2, "same count before and after")
	vp.Assert((e1 == nil) == (e2 == nil), "same outcome before and after")
	j := vp.Int("probe")
	vp.Assume(j >= 0)
	vp.Assume(j < 8)
	vp.Assert(p1[j] == p2[j], "same bytes before and after")
	if e1 == nil {
		vp.Cover("full read")
	}
	if e1 == io.EOF {
		vp.Cover("read at the end of the file")
	}
}

// VP_C11_file_sub_writable: the partition view backend.Sub(New(f, readOnly), off, size) inherits
// the read-only flag: no writable handle when readOnly, and its reads never write.
func VP_C11_file_sub_writable() {
	ro := vp.Bool("readOnly")
	off := vp.I64("sub.off")
	vp.Assume(off >= 0)
	vp.Assume(off <= 1<<40)
	dev := vpdev.NewMemDev("img", -1)
	dev.UF = true
	s := backend.Sub(New(dev, ro), off, 1<<20)
	vp.NoPanic()
	buf := make([]byte, 4)
	_, _ = s.ReadAt(buf, vp.I64("read.off")&0xffff)
	_, _ = s.Stat()
	_ = s.Path()
	vp.Assert(len(dev.Log) == 0, "reads through the view wrote nothing")
	w, err := s.Writable()
	vp.AllowPanic()
	if ro {
		vp.Assert(err != nil, "view of a read-only backend: Writable() returns an error")
		vp.Assert(w == nil, "view of a read-only backend: no handle")
		vp.Assert(errors.Is(err, backend.ErrIncorrectOpenMode), "the error is ErrIncorrectOpenMode")
		vp.Assert(len(dev.Log) == 0, "nothing was written")
		vp.Cover("view of a read-only backend refuses")
	} else {
		vp.Assert(err == nil, "view of a read-write backend: Writable() succeeds")
		p := vp.Bytes("data", 2)
		x := vp.I64("write.off") & 0xffff
		_, werr := w.WriteAt(p, x)
		vp.Assert(werr == nil, "write through the view succeeds")
		vp.Assert(len(dev.Log) == 1, "one write reached the file")
		vp.Assert(dev.Log[0].Off == off+x, "the view writes at its own offset plus the given one")
		vp.Cover("view of a read-write backend writes inside the file")
	}
}

package backend

import (
	"io"
	"io/fs"
	"os"

	"github.com/diskfs/go-diskfs/internal/vp"
)

// recStorage records the offsets it is asked to read and write.
type recStorage struct {
	rOff, wOff, sOff int64
	rLen, wLen, sWh  int
	ro               bool
}

func (r *recStorage) Stat() (fs.FileInfo, error)  { return nil, nil }
func (r *recStorage) Read(b []byte) (int, error) { return 0, io.EOF }
func (r *recStorage) Close() error               { return nil }
func (r *recStorage) ReadAt(p []byte, off int64) (int, error) {
	r.rOff, r.rLen = off, len(p)
	return len(p), nil
}
func (r *recStorage) WriteAt(p []byte, off int64) (int, error) {
	r.wOff, r.wLen = off, len(p)
	return len(p), nil
}
func (r *recStorage) Seek(off int64, wh int) (int64, error) {
	r.sOff, r.sWh = off, wh
	return off, nil
}
func (r *recStorage) Sys() (*os.File, error) { return nil, nil }
func (r *recStorage) Writable() (WritableFile, error) {
	if r.ro {
		return nil, ErrIncorrectOpenMode
	}
	return r, nil
}
func (r *recStorage) Path() string { return "" }

// VP_C03_substorage: the offset translation wrapper used by ext4 and squashfs adds exactly its
// offset to every read, write and seek (the wrapper enforces nothing itself; that its callers stay
// below `size` is what the filesystem harnesses assert).
func VP_C03_substorage() {
	off, size := vp.I64("offset"), vp.I64("size")
	vp.Assume(off >= 0)
	vp.Assume(off <= 1<<50)
	vp.Assume(size >= 0)
	vp.Assume(size <= 1<<50)
	u := &recStorage{}
	s := Sub(u, off, size)
	o := vp.I64("o")
	vp.Assume(o >= 0)
	vp.Assume(o <= 1<<50)
	buf := make([]byte, 8)
	_, _ = s.ReadAt(buf, o)
	vp.Assert(u.rOff == off+o, "ReadAt is translated by the sub-range's offset")
	w, err := s.Writable()
	vp.Assert(err == nil, "a writable underlying storage gives a writable sub-range")
	_, _ = w.WriteAt(buf, o)
	vp.Assert(u.wOff == off+o && u.wLen == 8, "WriteAt is translated by the sub-range's offset")
	_, _ = w.ReadAt(buf, o)
	vp.Assert(u.rOff == off+o, "ReadAt of the writable view is translated")
	p, _ := s.Seek(o, io.SeekStart)
	vp.Assert(u.sOff == off+o && p == o, "Seek(start) is translated and reported relative to the sub-range")
	p, _ = s.Seek(-1, io.SeekEnd)
	vp.Assert(u.sOff == off+size-1 && p == size-1, "Seek(end) is relative to the end of the sub-range")
	vp.Cover("substorage translated")
}

// VP_C03_substorage_readonly: a read-only underlying storage is never made writable by wrapping.
func VP_C03_substorage_readonly() {
	u := &recStorage{ro: true}
	s := Sub(u, vp.I64("offset"), vp.I64("size"))
	_, err := s.Writable()
	vp.Assert(err != nil, "Writable() of a sub-range of a read-only storage fails")
	vp.Cover("readonly")
}

package diskfs

import (
	"os"

	"github.com/diskfs/go-diskfs/backend"
	"github.com/diskfs/go-diskfs/backend/file"
	"github.com/diskfs/go-diskfs/internal/vp"
	"github.com/diskfs/go-diskfs/internal/vp/vpdev"
	"github.com/diskfs/go-diskfs/partition/mbr"
)

// diskfs.Open itself calls os.Stat / os.OpenFile (outside the engine). What Open does with the
// mode is: m := openModeOptions[mode] (flags for the kernel) and file.New(f, !writableMode(mode))
// (the library-side read-only flag). The harnesses below take these pieces with an ARBITRARY
// mode value and check them against the os flag semantics.

// c11WriteBits: the os.OpenFile flag bits that give any kind of write access to the file.
const c11WriteBits = os.O_WRONLY | os.O_RDWR | os.O_APPEND | os.O_CREATE | os.O_TRUNC

// c11Img: image file whose WriteAt is a violation when the disk was opened read-only.
type c11Img struct {
	*vpdev.MemDev
	ro     bool
	writes int
}

func (d *c11Img) WriteAt(p []byte, off int64) (int, error) {
	vp.Assert(!d.ro, "no WriteAt reaches an image that was opened read-only")
	d.writes++
	return d.MemDev.WriteAt(p, off)
}

// VP_C11_open_mode_mapping: for every OpenModeOption value (also undefined ones):
// ReadOnly maps to kernel flags without any write bit and to a read-only backend; the backend is
// writable only for modes whose kernel flags carry O_RDWR/O_WRONLY; undefined modes are never writable.
func VP_C11_open_mode_mapping() {
	mode := OpenModeOption(vp.Int("mode"))
	vp.Assume(mode >= -2)
	vp.Assume(mode <= 5)
	opt := openOptsDefaults()
	vp.Assert(WithOpenMode(mode)(opt) == nil, "WithOpenMode accepts the value")
	vp.Assert(opt.mode == mode, "WithOpenMode stores the requested mode")
	m, ok := openModeOptions[opt.mode]
	w := writableMode(opt.mode)
	if mode == ReadOnly {
		vp.Assert(ok, "ReadOnly is a supported mode")
		vp.Assert(m&c11WriteBits == 0, "ReadOnly: the flags given to the kernel carry no write/create/append/truncate bit")
		vp.Assert(!w, "ReadOnly is not a writable mode")
		vp.Cover("ReadOnly")
	}
	if ok {
		vp.Assert(w == (m&(os.O_WRONLY|os.O_RDWR) != 0), "the backend is writable exactly if the kernel flags open the file for writing")
		if w {
			vp.Assert(mode == ReadWrite || mode == ReadWriteExclusive, "only the two read-write modes are writable")
			vp.Cover("read-write mode")
		}
	} else {
		vp.Assert(!w, "an unsupported mode is never writable")
		vp.Cover("unsupported mode")
	}
}

// VP_C11_open_mode_disk: the tail of Open for an arbitrary mode: backend = file.New(f, !writableMode(mode)),
// disk = initDisk(backend, sectorSize); then Disk.Partition with arbitrary MBR fields.
// For ReadOnly (and every mode that is not a read-write mode) the call fails and the image is untouched;
// initDisk itself (which probes for a partition table) never writes, whatever the mode.
func c11OpenModeDisk(ss SectorSize) {
	mode := OpenModeOption(vp.Int("mode"))
	vp.Assume(mode >= -1)
	vp.Assume(mode <= 3)
	img := &c11Img{MemDev: vpdev.NewMemDev("img", 1<<20)}
	img.ro = true // while the disk is being opened nothing may be written in any mode
	vp.NoPanic()
	d, err := initDisk(file.New(img, !writableMode(mode)), ss)
	vp.Assert(err == nil, "a regular image file of 1 MiB opens")
	vp.Assert(img.writes == 0, "opening the disk wrote nothing")
	isRW := mode == ReadWrite || mode == ReadWriteExclusive
	img.ro = !isRW
	t := &mbr.Table{LogicalSectorSize: 512, PhysicalSectorSize: 512, Partitions: []*mbr.Partition{{
		Type: mbr.Type(vp.U8("p.type")), Start: vp.U32("p.start"), Size: vp.U32("p.size")}}}
	perr := d.Partition(t)
	vp.AllowPanic()
	if !isRW {
		vp.Assert(perr != nil, "disk not opened read-write: Partition returns an error")
		vp.Assert(img.writes == 0, "disk not opened read-write: Partition wrote nothing")
		if mode == ReadOnly {
			vp.Cover("ReadOnly disk refuses Partition")
		}
	} else {
		vp.Assert(perr == nil, "read-write disk: Partition succeeds")
		vp.Assert(img.writes > 0, "read-write disk: the table was written")
		vp.Cover("read-write disk is partitioned")
	}
}

func VP_C11_open_mode_disk_default() { c11OpenModeDisk(SectorSizeDefault) }
func VP_C11_open_mode_disk_4k()      { c11OpenModeDisk(SectorSize4k) }

// VP_C11_openbackend: OpenBackend(backend, options) with a backend built by file.New(f, readOnly)
// for an arbitrary readOnly: opening never writes; on the read-only backend Partition fails
// without writing, whatever open-mode option is passed along.
// (Observation, not asserted because it is outside the statement's list of ways to obtain
// read-only access: OpenBackend ignores WithOpenMode; with WithOpenMode(ReadOnly) over a
// read-write backend the disk is writable - see the cover point.)
func VP_C11_openbackend() {
	ro := vp.Bool("readOnly")
	mode := OpenModeOption(vp.Int("mode"))
	vp.Assume(mode >= 0)
	vp.Assume(mode <= 2)
	img := &c11Img{MemDev: vpdev.NewMemDev("img", 1<<20)}
	img.ro = true
	var b backend.Storage = file.New(img, ro)
	vp.NoPanic()
	d, err := OpenBackend(b, WithOpenMode(mode), WithSectorSize(SectorSize512))
	vp.Assert(err == nil, "a regular image file of 1 MiB opens")
	vp.Assert(img.writes == 0, "opening the disk wrote nothing")
	img.ro = ro
	t := &mbr.Table{LogicalSectorSize: 512, PhysicalSectorSize: 512, Partitions: []*mbr.Partition{{
		Type: mbr.Type(vp.U8("p.type")), Start: vp.U32("p.start"), Size: vp.U32("p.size")}}}
	perr := d.Partition(t)
	vp.AllowPanic()
	if ro {
		vp.Assert(perr != nil, "read-only backend: Partition returns an error")
		vp.Assert(img.writes == 0, "read-only backend: Partition wrote nothing")
		vp.Cover("read-only backend refuses Partition")
	} else if perr == nil {
		if mode == ReadOnly {
			vp.Cover("observation: OpenBackend(read-write backend, WithOpenMode(ReadOnly)) yields a disk that can be partitioned")
		}
	}
}

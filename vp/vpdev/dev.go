// Package vpdev provides harness-side models of the environment: an in-memory
// backend.Storage with a write log (MemDev) and readers/writers with arbitrary chunking.
// They are ordinary Go: the engine executes them symbolically, replay executes them natively.
package vpdev

import (
	"errors"
	"fmt"
	"io"
	"io/fs"
	"os"
	"time"

	"github.com/diskfs/go-diskfs/backend"
	"github.com/diskfs/go-diskfs/internal/vp"
)

// WRec is one WriteAt call.
type WRec struct {
	Off  int64
	Len  int
	Data []byte
}

// MemDev is a backend.Storage held in memory.
type MemDev struct {
	Name string
	// Size of the device in bytes; negative = unbounded.
	Size int64
	// Base content: Image (offset 0..len(Image)) over UF bytes (if UF) over zeros.
	Image []byte
	UF    bool
	Log   []WRec
	// Syncs[i] = number of log records at the time of the i-th Sync
	Syncs []int
	// write range check
	Range  bool
	Lo, Hi int64
	// NoWrites makes any WriteAt (or successful Writable) an assertion failure
	NoWrites bool
	// ReadOnly makes Writable() return an error
	ReadOnly bool
	// NoData records only offset and length of writes (arithmetic-only harnesses)
	NoData bool
	Pos      int64
	// ShortReads lets ReadAt return arbitrary shorter counts (with an error)
	WritableCalls int
}

var ErrOther = errors.New("vpdev: injected I/O error")

func NewMemDev(name string, size int64) *MemDev { return &MemDev{Name: name, Size: size} }

func (d *MemDev) base(o int64) byte {
	var v byte
	if d.UF {
		v = vp.UFByte(d.Name, o)
	}
	if len(d.Image) > 0 {
		in := uint64(o) < uint64(len(d.Image))
		v = vp.IteU8(in, d.Image[vp.IteI64(in, o, 0)], v)
	}
	return v
}

// ByteAt returns the current content of the device at offset o.
func (d *MemDev) ByteAt(o int64) byte {
	v := d.base(o)
	for i := range d.Log {
		w := &d.Log[i]
		if len(w.Data) == 0 {
			continue
		}
		idx := o - w.Off
		in := uint64(idx) < uint64(len(w.Data))
		v = vp.IteU8(in, w.Data[vp.IteI64(in, idx, 0)], v)
	}
	return v
}

// ByteAtEpoch returns the content considering only the first n log records.
func (d *MemDev) ByteAtN(o int64, n int) byte {
	v := d.base(o)
	for i := 0; i < n && i < len(d.Log); i++ {
		w := &d.Log[i]
		if len(w.Data) == 0 {
			continue
		}
		idx := o - w.Off
		in := uint64(idx) < uint64(len(w.Data))
		v = vp.IteU8(in, w.Data[vp.IteI64(in, idx, 0)], v)
	}
	return v
}

func (d *MemDev) ReadAt(p []byte, off int64) (int, error) {
	if off < 0 {
		return 0, fmt.Errorf("vpdev: negative offset")
	}
	n := len(p)
	short := false
	if d.Size >= 0 {
		if off >= d.Size {
			return 0, io.EOF
		}
		if int64(n) > d.Size-off {
			n = int(d.Size - off)
			short = true
		}
	}
	if short {
		// n may be symbolic: fill without a data-dependent loop bound
		vp.FillFunc(p, func(i int) byte { return vp.IteU8(i < n, d.ByteAt(off+int64(i)), p[i]) })
		return n, io.EOF
	}
	vp.FillFunc(p, func(i int) byte { return d.ByteAt(off + int64(i)) })
	return n, nil
}

func (d *MemDev) WriteAt(p []byte, off int64) (int, error) {
	if d.NoWrites {
		vp.Assert(false, "no WriteAt on a device that must not be written")
	}
	if off < 0 {
		return 0, fmt.Errorf("vpdev: negative offset")
	}
	if d.Range {
		vp.Assert(off >= d.Lo, "write starts at or after the start of the assigned range")
		vp.Assert(off+int64(len(p)) <= d.Hi, "write ends inside the assigned range")
	}
	if d.Size >= 0 && off+int64(len(p)) > d.Size {
		return 0, fmt.Errorf("vpdev: write past end of device")
	}
	if d.NoData {
		d.Log = append(d.Log, WRec{Off: off, Len: len(p)})
		return len(p), nil
	}
	cp := make([]byte, len(p))
	copy(cp, p)
	d.Log = append(d.Log, WRec{Off: off, Len: len(p), Data: cp})
	return len(p), nil
}

// Written returns the total number of bytes written so far.
func (d *MemDev) Written() int64 {
	var t int64
	for i := range d.Log {
		t += int64(d.Log[i].Len)
	}
	return t
}

func (d *MemDev) Sync() error {
	d.Syncs = append(d.Syncs, len(d.Log))
	return nil
}

func (d *MemDev) Read(p []byte) (int, error) {
	n, err := d.ReadAt(p, d.Pos)
	d.Pos += int64(n)
	return n, err
}

func (d *MemDev) Seek(offset int64, whence int) (int64, error) {
	switch whence {
	case io.SeekStart:
		d.Pos = offset
	case io.SeekCurrent:
		d.Pos += offset
	case io.SeekEnd:
		d.Pos = d.Size + offset
	default:
		return -1, fmt.Errorf("vpdev: bad whence")
	}
	return d.Pos, nil
}

func (d *MemDev) Close() error { return nil }

type devInfo struct{ d *MemDev }

func (i devInfo) Name() string       { return i.d.Name }
func (i devInfo) Size() int64        { return i.d.Size }
func (i devInfo) Mode() fs.FileMode  { return 0o644 }
func (i devInfo) ModTime() time.Time { return time.Time{} }
func (i devInfo) IsDir() bool        { return false }
func (i devInfo) Sys() interface{}   { return nil }

func (d *MemDev) Stat() (fs.FileInfo, error) { return devInfo{d}, nil }

func (d *MemDev) Sys() (*os.File, error) { return nil, fmt.Errorf("vpdev: no os.File") }

func (d *MemDev) Writable() (backend.WritableFile, error) {
	d.WritableCalls++
	if d.ReadOnly {
		return nil, backend.ErrIncorrectOpenMode
	}
	if d.NoWrites {
		vp.Assert(false, "Writable() must not succeed on a device that must not be written")
	}
	return d, nil
}

func (d *MemDev) Path() string { return "" }

// ChunkReader is an io.Reader delivering arbitrary data in arbitrary piece sizes.
// Call k returns n_k bytes (0 <= n_k <= len(p)) named <Name>.d<k>[0..] and then, by
// arbitrary choice, nil, io.EOF or another error. After MaxCalls calls it returns (0, io.EOF).
type ChunkReader struct {
	Name     string
	MaxCalls int
	Calls    int
	Total    int64
	SawErr   bool
	// NoErr restricts the error choice to nil / io.EOF
	NoErr bool
	// NoData leaves the buffer content alone (offset/length arithmetic only)
	NoData bool
	SawEOF bool
}

func (r *ChunkReader) Read(p []byte) (int, error) {
	k := r.Calls
	r.Calls++
	if k >= r.MaxCalls {
		r.SawEOF = true
		return 0, io.EOF
	}
	n := vp.Int(fmt.Sprintf("%s.n%d", r.Name, k))
	vp.Assume(n >= 0)
	vp.Assume(n <= len(p))
	if !r.NoData {
		vp.Fill(p[:n], fmt.Sprintf("%s.d%d", r.Name, k))
	}
	r.Total += int64(n)
	e := vp.U8(fmt.Sprintf("%s.e%d", r.Name, k))
	if e == 0 {
		return n, nil
	}
	if e == 1 {
		r.SawEOF = true
		return n, io.EOF
	}
	vp.Assume(e == 2)
	vp.Assume(!r.NoErr)
	r.SawErr = true
	return n, ErrOther
}

// ChunkWriter is an io.Writer that records what it receives.
type ChunkWriter struct {
	Data  []byte
	Calls int
}

func (w *ChunkWriter) Write(p []byte) (int, error) {
	w.Calls++
	w.Data = append(w.Data, p...)
	return len(p), nil
}

// Package vp is the harness API of the solver-based checker.
//
// Every function here has two implementations: the symbolic engine (gosmt)
// intercepts the calls and treats inputs as solver variables; the code below is the
// native implementation used to replay counterexamples and witnesses against the real
// build (go test -overlay).
package vp

import (
	"encoding/json"
	"fmt"
	"os"
	"runtime/debug"
	"strconv"
	"strings"
)

type replay struct {
	Harness string                 `json:"harness"`
	Inputs  map[string]interface{} `json:"inputs"`
	Known   map[string]bool        `json:"known"`
	Tier    string                 `json:"tier"`
}

var cur replay
var noPanic bool
var knownPanics [][2]string

// AssumeFalse is the panic value used to end a native run whose inputs violate an assumption.
type AssumeFalse struct{}

// AssertFail is the panic value used when an assertion fails natively.
type AssertFail struct{ Label string }

func num(name string) uint64 {
	v, ok := cur.Inputs[name]
	if !ok {
		return 0
	}
	switch x := v.(type) {
	case float64:
		if x < 0 {
			return uint64(int64(x))
		}
		return uint64(x)
	case bool:
		if x {
			return 1
		}
		return 0
	case string:
		if u, err := strconv.ParseUint(x, 10, 64); err == nil {
			return u
		}
		i, _ := strconv.ParseInt(x, 10, 64)
		return uint64(i)
	case json.Number:
		if u, err := strconv.ParseUint(string(x), 10, 64); err == nil {
			return u
		}
		i, _ := strconv.ParseInt(string(x), 10, 64)
		return uint64(i)
	}
	return 0
}

func U8(name string) uint8   { return uint8(num(name)) }
func U16(name string) uint16 { return uint16(num(name)) }
func U32(name string) uint32 { return uint32(num(name)) }
func U64(name string) uint64 { return num(name) }
func I64(name string) int64  { return int64(num(name)) }
func I32(name string) int32  { return int32(num(name)) }
func Int(name string) int    { return int(int64(num(name))) }
func Bool(name string) bool  { return num(name) != 0 }

func byteList(name string) []interface{} {
	v, ok := cur.Inputs[name]
	if !ok {
		return nil
	}
	l, _ := v.([]interface{})
	return l
}

func elem(l []interface{}, i int) byte {
	if i >= len(l) {
		return 0
	}
	switch x := l[i].(type) {
	case float64:
		return byte(x)
	case json.Number:
		u, _ := strconv.ParseUint(string(x), 10, 64)
		return byte(u)
	}
	return 0
}

// Bytes returns a fresh slice of n arbitrary bytes.
func Bytes(name string, n int) []byte {
	l := byteList(name)
	b := make([]byte, n)
	for i := range b {
		b[i] = elem(l, i)
	}
	return b
}

// Fill overwrites p with arbitrary bytes name[0..len(p)).
func Fill(p []byte, name string) {
	l := byteList(name)
	for i := range p {
		p[i] = elem(l, i)
	}
}

// FillFunc sets p[i] = fn(i) for every index of p.
func FillFunc(p []byte, fn func(i int) byte) {
	for i := range p {
		p[i] = fn(i)
	}
}

func Assume(c bool) {
	if !c {
		panic(AssumeFalse{})
	}
}

func Assert(c bool, label string) {
	if !c {
		panic(AssertFail{label})
	}
}

// AssertUnless asserts c except on inputs in the class `known` of the recorded finding id
// (only if id is listed in /verif/known_findings.json).
func AssertUnless(id string, known bool, c bool, label string) {
	if !c {
		if known && cur.Known[id] {
			fmt.Printf("VP-KNOWN %s %s\n", id, label)
			panic(AssumeFalse{})
		}
		panic(AssertFail{label})
	}
}

// Known reports whether finding id is listed in known_findings.json.
func Known(id string) bool { return cur.Known[id] }

func Cover(label string) { fmt.Printf("VP-COVER %s\n", label) }

func Observe(label string, v uint64) { fmt.Printf("VP-OBS %s %d\n", label, v) }

// NoPanic declares that from here on a panic of the code under test is a violation.
func NoPanic() { noPanic = true }

// AllowPanic ends the NoPanic region.
func AllowPanic() { noPanic = false }

// KnownPanic attributes panics raised at positions containing `where` to finding id.
func KnownPanic(id, where string) { knownPanics = append(knownPanics, [2]string{id, where}) }

// ExactCRC selects the exact GF(2)-linear CRC evaluation (true) or the congruent uninterpreted model (false, default).
func ExactCRC(on bool)     {}
// MaxLoop declares that a loop of the code under test that can run more than n iterations is a violation.
func MaxLoop(n int)       {}
// SparseAlloc makes make() with a symbolic size produce a sparse array (no capacity bound).
func SparseAlloc(on bool)  {}

// Stopped is the panic value of Stop.
type Stopped struct{ Label string }

// Stop ends the run here (observation point reached); natively the harness run ends successfully.
func Stop(label string) { fmt.Printf("VP-COVER %s\n", label); panic(Stopped{label}) }
func Unwind(n int)        {}
func AllocCap(n int)      {}
func AllocLimit(n uint64) {}

// Bound returns the tier-dependent bound.
func Bound(name string, quick, thorough int) int {
	if cur.Tier == "thorough" {
		return thorough
	}
	return quick
}

func Thorough() bool { return cur.Tier == "thorough" }

// IsConst reports whether x is a concrete value in the symbolic engine (always true natively);
// harness support code may use it to pick a cheaper, equivalent computation.
func IsConst(x int64) bool { return true }

// Symbolic reports whether the harness runs inside the symbolic engine.
func Symbolic() bool { return false }

// HostFS switches on the in-memory host filesystem model (package vphost) in the symbolic engine:
// from here on os.*, filepath.WalkDir, (*os.File).*, unix.Stat and xattr.* calls are served by vphost.
// Natively a no-op (the vphost setup helpers then work on the real filesystem).
func HostFS() {}

// FixedNow pins time.Now() in the symbolic engine to the given Unix time (a constant), for code whose
// handling of the current time (decimal date formatting and parsing) would otherwise fork per digit.
// The clock value is then NOT explored; natively a no-op (the real clock is used). Still logged as a
// nondeterminism source.
func FixedNow(unixSec int64) {}

func IteU8(c bool, a, b uint8) uint8 {
	if c {
		return a
	}
	return b
}
func IteU32(c bool, a, b uint32) uint32 {
	if c {
		return a
	}
	return b
}
func IteU64(c bool, a, b uint64) uint64 {
	if c {
		return a
	}
	return b
}
func IteI64(c bool, a, b int64) int64 {
	if c {
		return a
	}
	return b
}
func IteInt(c bool, a, b int) int {
	if c {
		return a
	}
	return b
}

// UFByte is an arbitrary but fixed byte function (the initial content of a device).
func UFByte(name string, off int64) byte {
	ufs, ok := cur.Inputs["@uf"].(map[string]interface{})
	if !ok {
		return 0
	}
	t, ok := ufs["mem_"+name].(map[string]interface{})
	if !ok {
		return 0
	}
	v, ok := t[strconv.FormatUint(uint64(off), 10)]
	if !ok {
		return 0
	}
	switch x := v.(type) {
	case float64:
		return byte(x)
	case json.Number:
		u, _ := strconv.ParseUint(string(x), 10, 64)
		return byte(u)
	}
	return 0
}

// NondetSources returns how many nondeterminism sources (time.Now, rand, map order, …)
// were consulted so far on this path (always 0 natively).
func NondetSources() int { return 0 }

// Run executes harness h natively with the inputs from the file named by VP_REPLAY.
// It prints a VP-RESULT line and returns true if no assertion failed.
func Run(name string, h func()) (ok bool) {
	cur = replay{}
	noPanic = false
	knownPanics = nil
	if f := os.Getenv("VP_REPLAY"); f != "" {
		data, err := os.ReadFile(f)
		if err != nil {
			fmt.Printf("VP-RESULT error cannot read replay file: %v\n", err)
			return false
		}
		dec := json.NewDecoder(bytesReader(data))
		dec.UseNumber()
		if err := dec.Decode(&cur); err != nil {
			fmt.Printf("VP-RESULT error bad replay file: %v\n", err)
			return false
		}
	}
	defer func() {
		r := recover()
		switch x := r.(type) {
		case nil:
			fmt.Printf("VP-RESULT ok\n")
			ok = true
		case AssumeFalse:
			fmt.Printf("VP-RESULT assume-false\n")
			ok = true
		case Stopped:
			fmt.Printf("VP-RESULT ok\n")
			ok = true
		case AssertFail:
			fmt.Printf("VP-RESULT assert-fail %s\n", x.Label)
			ok = false
		default:
			if noPanic {
				// a panic at a site recorded as a known finding ends the run like the finding's class
				stack := string(debug.Stack())
				for _, kp := range knownPanics {
					// "site | kind": the part after " | " restricts the attribution to panics whose text contains it
					where, kindPart := kp[1], ""
					if i := strings.Index(where, " | "); i >= 0 {
						where, kindPart = where[:i], where[i+3:]
					}
					site := strings.TrimSuffix(strings.TrimSuffix(where, ")"), ")")
					if cur.Known[kp[0]] && strings.Contains(stack, site) && strings.Contains(fmt.Sprint(r), kindPart) {
						fmt.Printf("VP-KNOWN %s panic %v\n", kp[0], r)
						fmt.Printf("VP-RESULT assume-false\n")
						ok = true
						return
					}
				}
				fmt.Printf("VP-RESULT panic %v\n", r)
				ok = false
			} else {
				fmt.Printf("VP-RESULT path-end-panic %v\n", r)
				ok = true
			}
		}
	}()
	h()
	return
}

type br struct {
	b []byte
	i int
}

func (r *br) Read(p []byte) (int, error) {
	if r.i >= len(r.b) {
		return 0, fmt.Errorf("EOF")
	}
	n := copy(p, r.b[r.i:])
	r.i += n
	return n, nil
}

func bytesReader(b []byte) *br { return &br{b: b} }

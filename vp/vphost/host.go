// Package vphost is an in-memory model of the host filesystem for harnesses that drive code which
// reads a host directory tree (iso9660/squashfs Create, Finalize, workspace operations).
//
// In the symbolic engine (gosmt) the calls that the code under test makes to os.*, filepath.WalkDir,
// (*os.File).*, unix.Stat and xattr.* are redirected to the functions of this package (table
// hostRedirects in gosmt/hostfs.go) once the harness has called vp.HostFS(); the tree lives in ordinary
// Go values, so file contents, sizes, modes, owners and times may be solver variables.
// Natively (replay of counterexamples, validation of witnesses) nothing is redirected: the setup
// helpers below (MkdirAll, WriteFile, Symlink, Lchown, Chtimes, Chmod) operate on the real
// filesystem under the same paths, so the code under test sees a real directory with the same tree.
package vphost

import (
	"io"
	"io/fs"
	"os"
	"path"
	"sort"
	"strings"
	"syscall"
	"time"

	"github.com/diskfs/go-diskfs/internal/vp"
	"github.com/djherbis/times"
	"golang.org/x/sys/unix"
)

// Node is one file, directory or symlink of the virtual tree.
type Node struct {
	Name     string
	Mode     fs.FileMode // type bits and permission bits
	Data     []byte      // content of a regular file (length may be symbolic)
	Target   string      // symlink target
	Children []*Node     // directory entries, sorted by name
	Mtime    time.Time
	Uid, Gid uint32
	Rdev     uint64
	Parent   *Node
}

var root = &Node{Name: "/", Mode: fs.ModeDir | 0o755}
var tmpCount int

func split(p string) []string {
	p = path.Clean("/" + p)
	if p == "/" {
		return nil
	}
	return strings.Split(p[1:], "/")
}

func (n *Node) child(name string) *Node {
	for _, c := range n.Children {
		if c.Name == name {
			return c
		}
	}
	return nil
}

func (n *Node) add(c *Node) {
	c.Parent = n
	n.Children = append(n.Children, c)
	sort.Slice(n.Children, func(i, j int) bool { return n.Children[i].Name < n.Children[j].Name })
}

func (n *Node) remove(name string) {
	out := n.Children[:0]
	for _, c := range n.Children {
		if c.Name != name {
			out = append(out, c)
		}
	}
	n.Children = out
}

// lookup resolves p; with follow a symlink in the last position is resolved once.
func lookup(p string, follow bool) *Node {
	n := root
	parts := split(p)
	for i, s := range parts {
		if n.Mode&fs.ModeDir == 0 {
			return nil
		}
		c := n.child(s)
		if c == nil {
			return nil
		}
		if c.Mode&fs.ModeSymlink != 0 && (follow || i < len(parts)-1) {
			t := c.Target
			if !path.IsAbs(t) {
				t = path.Join("/"+strings.Join(parts[:i], "/"), t)
			}
			c = lookup(t, false)
			if c == nil {
				return nil
			}
		}
		n = c
	}
	return n
}

func pathErr(op, p string, err error) error { return &fs.PathError{Op: op, Path: p, Err: err} }

// ---- setup helpers (both modes) ---------------------------------------------------------------

// MkdirAll creates the directory p and its parents.
func MkdirAll(p string, perm fs.FileMode) error {
	if !vp.Symbolic() {
		return os.MkdirAll(p, perm)
	}
	n := root
	for _, s := range split(p) {
		c := n.child(s)
		if c == nil {
			c = &Node{Name: s, Mode: fs.ModeDir | perm, Mtime: time.Unix(0, 0).UTC()}
			n.add(c)
		} else if c.Mode&fs.ModeDir == 0 {
			return pathErr("mkdir", p, syscall.ENOTDIR)
		}
		n = c
	}
	return nil
}

// WriteFile creates or replaces the regular file p with data.
func WriteFile(p string, data []byte, perm fs.FileMode) error {
	if !vp.Symbolic() {
		if err := os.WriteFile(p, data, perm); err != nil {
			return err
		}
		return os.Chmod(p, perm)
	}
	dir := lookup(path.Dir(path.Clean("/"+p)), true)
	if dir == nil || dir.Mode&fs.ModeDir == 0 {
		return pathErr("open", p, fs.ErrNotExist)
	}
	name := path.Base(p)
	// the file owns its bytes (the caller's slice must not alias the file content)
	own := make([]byte, len(data))
	copy(own, data)
	if c := dir.child(name); c != nil {
		c.Data = own
		return nil
	}
	dir.add(&Node{Name: name, Mode: perm, Data: own, Mtime: time.Unix(0, 0).UTC()})
	return nil
}

// Symlink creates the symbolic link p pointing to target.
func Symlink(target, p string) error {
	if !vp.Symbolic() {
		return os.Symlink(target, p)
	}
	dir := lookup(path.Dir(path.Clean("/"+p)), true)
	if dir == nil || dir.Mode&fs.ModeDir == 0 {
		return pathErr("symlink", p, fs.ErrNotExist)
	}
	if dir.child(path.Base(p)) != nil {
		return pathErr("symlink", p, fs.ErrExist)
	}
	dir.add(&Node{Name: path.Base(p), Mode: fs.ModeSymlink | 0o777, Target: target, Mtime: time.Unix(0, 0).UTC()})
	return nil
}

// Lchown sets owner and group of p (not following symlinks). Natively this needs root.
func Lchown(p string, uid, gid uint32) error {
	if !vp.Symbolic() {
		return os.Lchown(p, int(uid), int(gid))
	}
	n := lookup(p, false)
	if n == nil {
		return pathErr("lchown", p, fs.ErrNotExist)
	}
	n.Uid, n.Gid = uid, gid
	return nil
}

// Chmod sets the permission bits (and setuid/setgid/sticky) of p.
func Chmod(p string, mode fs.FileMode) error {
	if !vp.Symbolic() {
		return os.Chmod(p, mode)
	}
	n := lookup(p, true)
	if n == nil {
		return pathErr("chmod", p, fs.ErrNotExist)
	}
	const bits = fs.ModePerm | fs.ModeSetuid | fs.ModeSetgid | fs.ModeSticky
	n.Mode = n.Mode&^bits | mode&bits
	return nil
}

// Chtimes sets the modification time of p to sec seconds after the epoch.
func Chtimes(p string, sec int64) error {
	if !vp.Symbolic() {
		t := time.Unix(sec, 0)
		return os.Chtimes(p, t, t)
	}
	n := lookup(p, true)
	if n == nil {
		return pathErr("chtimes", p, fs.ErrNotExist)
	}
	n.Mtime = time.Unix(sec, 0).UTC()
	return nil
}

// ---- fs.FileInfo / fs.DirEntry ----------------------------------------------------------------

type info struct{ n *Node }

func (i info) Name() string { return i.n.Name }
func (i info) Size() int64 {
	if i.n.Mode&fs.ModeSymlink != 0 {
		return int64(len(i.n.Target))
	}
	if i.n.Mode&fs.ModeDir != 0 {
		return 4096
	}
	return int64(len(i.n.Data))
}
func (i info) Mode() fs.FileMode          { return i.n.Mode }
func (i info) ModTime() time.Time         { return i.n.Mtime }
func (i info) IsDir() bool                { return i.n.Mode&fs.ModeDir != 0 }
func (i info) Type() fs.FileMode          { return i.n.Mode & fs.ModeType }
func (i info) Info() (fs.FileInfo, error) { return i, nil }
func (i info) Sys() any {
	nlink := uint64(1)
	if i.n.Mode&fs.ModeDir != 0 {
		nlink = 2
		for _, c := range i.n.Children {
			if c.Mode&fs.ModeDir != 0 {
				nlink++
			}
		}
	}
	sec := i.n.Mtime.Unix()
	ts := syscall.Timespec{Sec: sec}
	return &syscall.Stat_t{Nlink: nlink, Uid: i.n.Uid, Gid: i.n.Gid, Rdev: i.n.Rdev, Size: i.Size(), Atim: ts, Mtim: ts, Ctim: ts}
}

// ---- redirected package functions (symbolic mode only) -----------------------------------------

func Stat(name string) (fs.FileInfo, error) {
	n := lookup(name, true)
	if n == nil {
		return nil, pathErr("stat", name, fs.ErrNotExist)
	}
	return info{n}, nil
}

func Lstat(name string) (fs.FileInfo, error) {
	n := lookup(name, false)
	if n == nil {
		return nil, pathErr("lstat", name, fs.ErrNotExist)
	}
	return info{n}, nil
}

func OsMkdirAll(p string, perm fs.FileMode) error { return MkdirAll(p, perm) }

func Mkdir(p string, perm fs.FileMode) error {
	if lookup(p, true) != nil {
		return pathErr("mkdir", p, fs.ErrExist)
	}
	if lookup(path.Dir(path.Clean("/"+p)), true) == nil {
		return pathErr("mkdir", p, fs.ErrNotExist)
	}
	return MkdirAll(p, perm)
}

func MkdirTemp(dir, pattern string) (string, error) {
	if dir == "" {
		dir = "/tmp"
	}
	tmpCount++
	p := path.Join(dir, strings.ReplaceAll(pattern, "*", "")+"vphost"+string(rune('0'+tmpCount)))
	if err := MkdirAll(p, 0o700); err != nil {
		return "", err
	}
	return p, nil
}

func ReadDir(name string) ([]fs.DirEntry, error) {
	n := lookup(name, true)
	if n == nil {
		return nil, pathErr("open", name, fs.ErrNotExist)
	}
	if n.Mode&fs.ModeDir == 0 {
		return nil, pathErr("readdirent", name, syscall.ENOTDIR)
	}
	out := make([]fs.DirEntry, 0, len(n.Children))
	for _, c := range n.Children {
		out = append(out, info{c})
	}
	return out, nil
}

func Readlink(name string) (string, error) {
	n := lookup(name, false)
	if n == nil {
		return "", pathErr("readlink", name, fs.ErrNotExist)
	}
	if n.Mode&fs.ModeSymlink == 0 {
		return "", pathErr("readlink", name, syscall.EINVAL)
	}
	return n.Target, nil
}

func ReadFile(name string) ([]byte, error) {
	n := lookup(name, true)
	if n == nil {
		return nil, pathErr("open", name, fs.ErrNotExist)
	}
	out := make([]byte, len(n.Data))
	copy(out, n.Data)
	return out, nil
}

func OsWriteFile(name string, data []byte, perm fs.FileMode) error { return WriteFile(name, data, perm) }

func Remove(name string) error {
	n := lookup(name, false)
	if n == nil || n.Parent == nil {
		return pathErr("remove", name, fs.ErrNotExist)
	}
	if n.Mode&fs.ModeDir != 0 && len(n.Children) > 0 {
		return pathErr("remove", name, syscall.ENOTEMPTY)
	}
	n.Parent.remove(n.Name)
	return nil
}

func RemoveAll(name string) error {
	n := lookup(name, false)
	if n == nil || n.Parent == nil {
		return nil
	}
	n.Parent.remove(n.Name)
	return nil
}

func Rename(oldpath, newpath string) error {
	n := lookup(oldpath, false)
	if n == nil || n.Parent == nil {
		return pathErr("rename", oldpath, fs.ErrNotExist)
	}
	dir := lookup(path.Dir(path.Clean("/"+newpath)), true)
	if dir == nil || dir.Mode&fs.ModeDir == 0 {
		return pathErr("rename", newpath, fs.ErrNotExist)
	}
	n.Parent.remove(n.Name)
	dir.remove(path.Base(newpath))
	n.Name = path.Base(newpath)
	dir.add(n)
	return nil
}

func OsSymlink(target, p string) error { return Symlink(target, p) }
func OsChmod(p string, m fs.FileMode) error { return Chmod(p, m) }
func OsLchown(p string, uid, gid int) error { return Lchown(p, uint32(uid), uint32(gid)) }
func OsChtimes(p string, atime, mtime time.Time) error {
	n := lookup(p, true)
	if n == nil {
		return pathErr("chtimes", p, fs.ErrNotExist)
	}
	n.Mtime = mtime
	return nil
}

// WalkDir visits the tree in lexical order like path/filepath.WalkDir.
func WalkDir(rootPath string, fn fs.WalkDirFunc) error {
	n := lookup(rootPath, false)
	if n == nil {
		return fn(rootPath, nil, pathErr("lstat", rootPath, fs.ErrNotExist))
	}
	err := walk(rootPath, n, fn)
	if err == fs.SkipDir || err == fs.SkipAll {
		return nil
	}
	return err
}

func walk(p string, n *Node, fn fs.WalkDirFunc) error {
	if err := fn(p, info{n}, nil); err != nil || n.Mode&fs.ModeDir == 0 {
		if err == fs.SkipDir && n.Mode&fs.ModeDir != 0 {
			err = nil
		}
		return err
	}
	for _, c := range n.Children {
		cp := p + "/" + c.Name
		if strings.HasSuffix(p, "/") {
			cp = p + c.Name
		}
		if err := walk(cp, c, fn); err != nil {
			if err == fs.SkipDir {
				break
			}
			return err
		}
	}
	return nil
}

// Walk is path/filepath.Walk on the virtual tree.
func Walk(rootPath string, fn func(path string, info fs.FileInfo, err error) error) error {
	return WalkDir(rootPath, func(p string, d fs.DirEntry, err error) error {
		if d == nil {
			return fn(p, nil, err)
		}
		fi, _ := d.Info()
		return fn(p, fi, err)
	})
}

// ---- *os.File -----------------------------------------------------------------------------------

// File is the state behind a redirected *os.File.
type File struct {
	n      *Node
	name   string
	off    int64
	flag   int
	closed bool
	listed bool
}

var handles = map[*os.File]*File{}

func Open(name string) (*os.File, error) { return OpenFile(name, os.O_RDONLY, 0) }

func Create(name string) (*os.File, error) {
	return OpenFile(name, os.O_RDWR|os.O_CREATE|os.O_TRUNC, 0o666)
}

func OpenFile(name string, flag int, perm fs.FileMode) (*os.File, error) {
	n := lookup(name, true)
	if n == nil {
		if flag&os.O_CREATE == 0 {
			return nil, pathErr("open", name, fs.ErrNotExist)
		}
		if err := WriteFile(name, nil, perm&fs.ModePerm); err != nil {
			return nil, err
		}
		n = lookup(name, true)
	} else if flag&os.O_CREATE != 0 && flag&os.O_EXCL != 0 {
		return nil, pathErr("open", name, fs.ErrExist)
	}
	if flag&os.O_TRUNC != 0 && n.Mode&fs.ModeDir == 0 {
		n.Data = nil
	}
	h := &File{n: n, name: name, flag: flag}
	if flag&os.O_APPEND != 0 {
		h.off = int64(len(n.Data))
	}
	f := new(os.File)
	handles[f] = h
	return f, nil
}

func handle(f *os.File) (*File, error) {
	if f == nil {
		return nil, os.ErrInvalid
	}
	h := handles[f]
	if h == nil {
		return nil, os.ErrInvalid
	}
	if h.closed {
		return nil, pathErr("file", h.name, os.ErrClosed)
	}
	return h, nil
}

func FileRead(f *os.File, p []byte) (int, error) {
	h, err := handle(f)
	if err != nil {
		return 0, err
	}
	if h.n.Mode&fs.ModeDir != 0 {
		return 0, pathErr("read", h.name, syscall.EISDIR)
	}
	if len(p) == 0 {
		return 0, nil
	}
	if h.off >= int64(len(h.n.Data)) {
		return 0, io.EOF
	}
	k := copy(p, h.n.Data[h.off:])
	h.off += int64(k)
	return k, nil
}

func FileReadAt(f *os.File, p []byte, off int64) (int, error) {
	h, err := handle(f)
	if err != nil {
		return 0, err
	}
	if off < 0 {
		return 0, pathErr("readat", h.name, os.ErrInvalid)
	}
	if off >= int64(len(h.n.Data)) {
		return 0, io.EOF
	}
	k := copy(p, h.n.Data[off:])
	if k < len(p) {
		return k, io.EOF
	}
	return k, nil
}

func FileWrite(f *os.File, p []byte) (int, error) {
	h, err := handle(f)
	if err != nil {
		return 0, err
	}
	if h.flag&(os.O_WRONLY|os.O_RDWR) == 0 {
		return 0, pathErr("write", h.name, syscall.EBADF)
	}
	if h.flag&os.O_APPEND != 0 {
		h.off = int64(len(h.n.Data))
	}
	k, _ := FileWriteAt0(h, p, h.off)
	h.off += int64(k)
	return k, nil
}

func FileWriteAt0(h *File, p []byte, off int64) (int, error) {
	end := int(off) + len(p)
	if end > len(h.n.Data) {
		nd := make([]byte, end)
		copy(nd, h.n.Data)
		h.n.Data = nd
	}
	copy(h.n.Data[off:], p)
	return len(p), nil
}

func FileWriteAt(f *os.File, p []byte, off int64) (int, error) {
	h, err := handle(f)
	if err != nil {
		return 0, err
	}
	if h.flag&(os.O_WRONLY|os.O_RDWR) == 0 {
		return 0, pathErr("write", h.name, syscall.EBADF)
	}
	return FileWriteAt0(h, p, off)
}

func FileWriteString(f *os.File, s string) (int, error) { return FileWrite(f, []byte(s)) }

func FileSeek(f *os.File, offset int64, whence int) (int64, error) {
	h, err := handle(f)
	if err != nil {
		return 0, err
	}
	var base int64
	switch whence {
	case io.SeekStart:
	case io.SeekCurrent:
		base = h.off
	case io.SeekEnd:
		base = int64(len(h.n.Data))
	default:
		return 0, pathErr("seek", h.name, os.ErrInvalid)
	}
	if base+offset < 0 {
		return 0, pathErr("seek", h.name, os.ErrInvalid)
	}
	h.off = base + offset
	return h.off, nil
}

func FileClose(f *os.File) error {
	h, err := handle(f)
	if err != nil {
		return err
	}
	h.closed = true
	return nil
}

func FileStat(f *os.File) (fs.FileInfo, error) {
	h, err := handle(f)
	if err != nil {
		return nil, err
	}
	return info{h.n}, nil
}

func FileName(f *os.File) string {
	if h := handles[f]; h != nil {
		return h.name
	}
	return ""
}

func FileSync(f *os.File) error {
	_, err := handle(f)
	return err
}

func FileTruncate(f *os.File, size int64) error {
	h, err := handle(f)
	if err != nil {
		return err
	}
	nd := make([]byte, size)
	copy(nd, h.n.Data)
	h.n.Data = nd
	return nil
}

func FileReadDir(f *os.File, n int) ([]fs.DirEntry, error) {
	h, err := handle(f)
	if err != nil {
		return nil, err
	}
	if h.listed {
		if n > 0 {
			return nil, io.EOF
		}
		return nil, nil
	}
	h.listed = true
	return ReadDir(h.name)
}

func FileReaddir(f *os.File, n int) ([]fs.FileInfo, error) {
	des, err := FileReadDir(f, n)
	out := make([]fs.FileInfo, 0, len(des))
	for _, d := range des {
		fi, _ := d.Info()
		out = append(out, fi)
	}
	return out, err
}

// FileWriteTo / FileReadFrom: the generic copy loops (io.Copy prefers these methods of *os.File).
func FileWriteTo(f *os.File, w io.Writer) (int64, error) {
	var total int64
	buf := make([]byte, 32*1024)
	for {
		n, err := FileRead(f, buf)
		if n > 0 {
			m, werr := w.Write(buf[:n])
			total += int64(m)
			if werr != nil {
				return total, werr
			}
		}
		if err == io.EOF {
			return total, nil
		}
		if err != nil {
			return total, err
		}
	}
}

func FileReadFrom(f *os.File, r io.Reader) (int64, error) {
	var total int64
	buf := make([]byte, 32*1024)
	for {
		n, err := r.Read(buf)
		if n > 0 {
			m, werr := FileWrite(f, buf[:n])
			total += int64(m)
			if werr != nil {
				return total, werr
			}
		}
		if err == io.EOF {
			return total, nil
		}
		if err != nil {
			return total, err
		}
	}
}

// ---- unix.Stat / xattr ---------------------------------------------------------------------------

func XattrList(p string) ([]string, error) {
	if lookup(p, true) == nil {
		return nil, pathErr("listxattr", p, fs.ErrNotExist)
	}
	return nil, nil
}

func XattrGet(p, name string) ([]byte, error) {
	return nil, pathErr("getxattr", p, syscall.ENODATA)
}

// UnixStat / UnixLstat stand in for golang.org/x/sys/unix.Stat / Lstat.
func UnixStat(p string, st *unix.Stat_t) error  { return unixStat(p, st, true) }
func UnixLstat(p string, st *unix.Stat_t) error { return unixStat(p, st, false) }

func unixStat(p string, st *unix.Stat_t, follow bool) error {
	n := lookup(p, follow)
	if n == nil {
		return syscall.ENOENT
	}
	s := info{n}.Sys().(*syscall.Stat_t)
	st.Nlink = s.Nlink
	st.Uid = s.Uid
	st.Gid = s.Gid
	st.Rdev = s.Rdev
	st.Size = s.Size
	st.Mode = uint32(n.Mode.Perm())
	return nil
}

// TimesStat / TimesLstat stand in for github.com/djherbis/times.Stat / Lstat (access, change and
// modification time all equal the node's modification time, as after vphost.Chtimes natively...
// natively the change time is the time of the last inode change, which harnesses must not assert on).
func TimesStat(p string) (times.Timespec, error) {
	fi, err := Stat(p)
	if err != nil {
		return nil, err
	}
	return times.Get(fi), nil
}

func TimesLstat(p string) (times.Timespec, error) {
	fi, err := Lstat(p)
	if err != nil {
		return nil, err
	}
	return times.Get(fi), nil
}

package main

import (
	"flag"
	"runtime/pprof"
	"fmt"
	"os"
	"strconv"

	"verif/gosmt"
)

func main() {
	if len(os.Args) < 2 {
		fmt.Println("usage: gosmt check|replay ...")
		os.Exit(2)
	}
	cmd := os.Args[1]
	fs := flag.NewFlagSet(cmd, flag.ExitOnError)
	prop := fs.String("prop", "", "property id")
	tier := fs.String("tier", "quick", "quick|thorough")
	only := fs.String("only", "", "substring filter on harness ids")
	repo := fs.String("repo", "/repo", "repository")
	verif := fs.String("verif", "/verif", "verif dir")
	workers := fs.Int("workers", 0, "parallel harnesses")
	trace := fs.Bool("trace", false, "trace instructions")
	noreplay := fs.Bool("noreplay", false, "skip native replay")
	verbose := fs.Bool("v", false, "verbose")
	file := fs.String("file", "", "replay file")
	fs.Parse(os.Args[2:])
	seed := int64(1)
	if s := os.Getenv("VERIF_SEED"); s != "" {
		if v, err := strconv.ParseInt(s, 10, 64); err == nil {
			seed = v
		}
	}
	if t := os.Getenv("VERIF_TIER"); t != "" && !isFlagSet(fs, "tier") {
		*tier = t
	}
	cfg := &gosmt.Config{Repo: *repo, Verif: *verif, Property: *prop, Tier: *tier, Seed: seed, Only: *only,
		Workers: *workers, Trace: *trace, NoReplay: *noreplay, Verbose: *verbose}
	if pf := os.Getenv("GOSMT_PROF"); pf != "" {
		f, _ := os.Create(pf)
		pprof.StartCPUProfile(f)
		defer pprof.StopCPUProfile()
	}
	switch cmd {
	case "check":
		rc := gosmt.Check(cfg)
		pprof.StopCPUProfile()
		os.Exit(rc)
	case "replay":
		os.Exit(gosmt.Replay(cfg, *file))
	}
	fmt.Println("unknown command", cmd)
	os.Exit(2)
}

func isFlagSet(fs *flag.FlagSet, name string) bool {
	set := false
	fs.Visit(func(f *flag.Flag) {
		if f.Name == name {
			set = true
		}
	})
	return set
}
